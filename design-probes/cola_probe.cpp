#include <libcola/cola.h>
#include <libvpsc/rectangle.h>
#include <random>
#include <cstdio>
#include <cmath>
#include <set>
using namespace cola;
struct SepSpec{int dim;unsigned l,r;double g;bool eq; CompoundConstraint*cc;};
struct AlnSpec{int dim; std::vector<std::pair<unsigned,double>> m; CompoundConstraint*cc;};
int main(int argc,char**argv){ unsigned seed=argc>1?atoi(argv[1]):1; int N=argc>2?atoi(argv[2]):200; int mode=argc>3?atoi(argv[3]):0; std::mt19937 rng(seed); auto U=[&](int a,int b){return (int)(rng()%(b-a+1))+a;};
 int badc=0,badov=0,badsz=0,badnan=0,reported=0,cases=0,asserts=0,feasUnsatReported=0;
 for(int t=0;t<N;t++){ unsigned n=U(2,9); std::vector<vpsc::Rectangle*> rs; std::vector<double> w,h; for(unsigned i=0;i<n;i++){ double x=U(0,200),y=U(0,200); if((mode&8)&&U(0,2)==0&&i>0){x=rs[0]->getMinX();y=rs[0]->getMinY();} double ww=U(5,40),hh=U(5,40); rs.push_back(new vpsc::Rectangle(x,x+ww,y,y+hh)); w.push_back(ww);h.push_back(hh);} std::vector<Edge> es; int m=U(0,2*n); for(int j=0;j<m;j++){unsigned a=U(0,n-1),b=U(0,n-1); if(a!=b) es.push_back({a,b});}
  CompoundConstraints ccs; std::vector<SepSpec> seps; std::vector<AlnSpec> alns; int nc=U(0,6); bool feasibleByConstr=(mode&4);
  // witness positions for feasible-by-construction
  std::vector<double> wx(n),wy(n); for(unsigned i=0;i<n;i++){wx[i]=U(0,300);wy[i]=U(0,300);} 
  std::set<unsigned> aligned[2];
  for(int c=0;c<nc;c++){ int dim=U(0,1); if(U(0,2)<2){ unsigned l=U(0,n-1),r=U(0,n-1); if(l==r)continue; bool eq=U(0,4)==0; double g; auto&W=dim?wy:wx; if(feasibleByConstr){ g= eq? W[r]-W[l] : W[r]-W[l]-U(0,30);} else g=U(-20,80); auto*sc=new SeparationConstraint((vpsc::Dim)dim,l,r,g,eq); ccs.push_back(sc); seps.push_back({dim,l,r,g,eq,sc}); }
   else { auto*ac=new AlignmentConstraint((vpsc::Dim)dim); AlnSpec a; a.dim=dim; a.cc=ac; int k=U(2,4); std::set<unsigned> used; auto&W=dim?wy:wx; double line=U(0,300); for(int q=0;q<k;q++){unsigned i=U(0,n-1); if(used.count(i)||aligned[dim].count(i))continue; used.insert(i); double off= feasibleByConstr? W[i]-line : U(-20,20); ac->addShape(i,off); a.m.push_back({i,off}); aligned[dim].insert(i);} if(a.m.size()<2){delete ac;continue;} if(feasibleByConstr){ /* make witness consistent: already is: W[i]-off==line */ } ccs.push_back(ac); alns.push_back(a);} }
  ConstrainedFDLayout alg(rs,es,60); alg.setConstraints(ccs); bool nov=(mode&1); alg.setAvoidNodeOverlaps(nov); UnsatisfiableConstraintInfos ux,uy; alg.setUnsatisfiableConstraintInfo(&ux,&uy);
  try{ if(mode&2) alg.makeFeasible(); alg.run(); } catch(vpsc::CriticalFailure&f){ asserts++; if(asserts<=2)printf("ASSERT %s\n",f.what().c_str()); continue;} catch(...){ asserts++; printf("EXC\n"); continue;}
  cases++;
  std::set<CompoundConstraint*> unsat; for(auto u:ux) unsat.insert(u->cc); for(auto u:uy) unsat.insert(u->cc); if(!unsat.empty()){reported++; if(feasibleByConstr) feasUnsatReported++;}
  auto P=[&](int dim,unsigned i){return dim?rs[i]->getCentreY():rs[i]->getCentreX();};
  bool bad=false; for(auto&s:seps){ if(unsat.count(s.cc))continue; double sl=P(s.dim,s.r)-P(s.dim,s.l)-s.g; if(s.eq?fabs(sl)>1e-4:sl<-1e-4){bad=true; if(badc<3)printf("SEP viol seed=%u t=%d dim=%d %u+%g%s%u slack=%g\n",seed,t,s.dim,s.l,s.g,s.eq?"==":"<=",s.r,sl);} }
  for(auto&a:alns){ if(unsat.count(a.cc))continue; double l0=P(a.dim,a.m[0].first)-a.m[0].second; for(auto&pr:a.m){ double l=P(a.dim,pr.first)-pr.second; if(fabs(l-l0)>1e-4){bad=true; if(badc<3)printf("ALN viol seed=%u t=%d diff=%g\n",seed,t,l-l0);} } }
  if(bad)badc++;
  for(unsigned i=0;i<n;i++){ if(fabs(rs[i]->width()-w[i])>1e-9||fabs(rs[i]->height()-h[i])>1e-9){badsz++;break;} } for(unsigned i=0;i<n;i++) if(!std::isfinite(rs[i]->getCentreX())||!std::isfinite(rs[i]->getCentreY())){badnan++;break;}
  if(nov&&(mode&2)&&unsat.empty()){ bool ov=false; for(unsigned i=0;i<n;i++)for(unsigned j=i+1;j<n;j++){ double ox=std::min(rs[i]->getMaxX(),rs[j]->getMaxX())-std::max(rs[i]->getMinX(),rs[j]->getMinX()); double oy=std::min(rs[i]->getMaxY(),rs[j]->getMaxY())-std::max(rs[i]->getMinY(),rs[j]->getMinY()); if(ox>1e-3&&oy>1e-3){ov=true; if(badov<3)printf("OVERLAP seed=%u t=%d %u,%u ox=%g oy=%g nccs=%zu\n",seed,t,i,j,ox,oy,ccs.size());}} if(ov)badov++; }
  for(auto u:ux)delete u; for(auto u:uy)delete u; for(auto c:ccs)delete c; for(auto r:rs)delete r; }
 printf("seed=%u mode=%d cases=%d asserts=%d reportedUnsat=%d (feasible-by-construction but reported: %d) constraintViol=%d overlap=%d size=%d nan=%d\n",seed,mode,cases,asserts,reported,feasUnsatReported,badc,badov,badsz,badnan);
}
