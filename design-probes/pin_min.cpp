#include "libavoid/libavoid.h"
#include <cstdio>
#include <cstdlib>
using namespace Avoid;
static void pr(const char*t,const PolyLine&r){ printf("%s:",t); for(size_t i=0;i<r.size();i++) printf(" (%g,%g)",r.ps[i].x,r.ps[i].y); printf("\n");}
int main(int argc,char**argv){ double buf=argc>1?atof(argv[1]):0; double inside=argc>2?atof(argv[2]):0;
 Router*router=new Router(OrthogonalRouting); router->setRoutingParameter(segmentPenalty,20); router->setRoutingParameter(shapeBufferDistance,buf);
 Rectangle a(Point(10,10),Point(30,20)); ShapeRef*s=new ShapeRef(router,a);
 // pin on the top edge (y=10), middle, Up only
 ShapeConnectionPin*p=new ShapeConnectionPin(s,1,0.5,ATTACH_POS_TOP,true,inside,ConnDirUp); p->setExclusive(false);
 printf("pin at (%g,%g)\n",p->position().x,p->position().y);
 Point srcs[]={Point(50,10),Point(50,5),Point(50,15),Point(-10,10),Point(20,-10),Point(50,30)};
 std::vector<ConnRef*> cs; for(auto&q:srcs){ ConnRef*c=new ConnRef(router,ConnEnd(q),ConnEnd(s,1)); c->setRoutingType(ConnType_Orthogonal); cs.push_back(c);} router->processTransaction();
 for(auto c:cs){ pr("raw ",c->route()); pr("disp",c->displayRoute()); }
 delete router; }
