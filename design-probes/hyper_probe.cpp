#include "scene.h"
#include <map>
#include <set>
#include <functional>
using namespace Avoid;
int main(int argc,char**argv){ unsigned seed=argc>1?atoi(argv[1]):1; int N=argc>2?atoi(argv[2]):200; int mode=argc>3?atoi(argv[3]):0; std::mt19937 rng(seed); auto U=[&](int a,int b){return (long)(rng()%(b-a+1))+a;};
 int cases=0,asserts=0,badTree=0,badTerm=0,badDangling=0,badLists=0,badRouteEnds=0;
 for(int t=0;t<N;t++){ Scene sc=genScene(rng,7,60,8,0); if(sc.rs.size()<3)continue; try{ Router*router=new Router(OrthogonalRouting); router->setRoutingParameter(segmentPenalty,20); if(mode&1){router->setRoutingOption(improveHyperedgeRoutesMovingAddingAndDeletingJunctions,true);} if(mode&4){router->setRoutingOption(improveHyperedgeRoutesMovingJunctions,false);} std::vector<ShapeRef*> sh; for(auto&r:sc.rs){ Rectangle rr(Point(r.x0,r.y0),Point(r.x1,r.y1)); ShapeRef*s=new ShapeRef(router,rr); new ShapeConnectionPin(s,1,ATTACH_POS_CENTRE,ATTACH_POS_CENTRE,true,0,ConnDirNone); sh.push_back(s);} 
   int k=U(3,std::min<int>(sc.rs.size(),6)); // terminals: shapes 0..k-1
   Pt jp; for(;;){ jp={U(0,90),U(0,90)}; bool ok=true; for(auto&r:sc.rs) if(inClosed(jp,r,2))ok=false; if(ok)break;} JunctionRef*j=new JunctionRef(router,Point(jp.x,jp.y)); std::vector<ConnRef*> cs; for(int i=0;i<k;i++){ ConnRef*c=new ConnRef(router,ConnEnd(sh[i],1),ConnEnd(j)); c->setRoutingType(ConnType_Orthogonal); cs.push_back(c);} 
   if(mode&2){ router->hyperedgeRerouter()->registerHyperedgeForRerouting(j);} 
   router->processTransaction();
   // analyse: nodes = junction objects + terminal shapes ; edges = connectors
   std::map<void*,int> id; std::vector<std::pair<int,int>> edges; std::set<ShapeRef*> termSeen; int dangling=0; auto nid=[&](void*p){ if(!id.count(p)){int n=id.size(); id[p]=n;} return id[p];}; int njunc=0; for(Obstacle*o:router->m_obstacles) if(dynamic_cast<JunctionRef*>(o)){nid(o);njunc++;}
   for(ConnRef*c:router->connRefs){ auto ends=c->endpointConnEnds(); int e[2]; ConnEnd ce[2]={ends.first,ends.second}; for(int q=0;q<2;q++){ if(ce[q].type()==ConnEndJunction) e[q]=nid(ce[q].junction()); else if(ce[q].type()==ConnEndShapePin){ e[q]=nid(ce[q].shape()); termSeen.insert(ce[q].shape()); } else {dangling++; e[q]=-1;} } if(e[0]>=0&&e[1]>=0) edges.push_back({e[0],e[1]});
     // route ends at attached object positions
     const PolyLine&d=c->displayRoute(); if(d.size()>=2){ for(int q=0;q<2;q++){ Point p=q?d.ps[d.size()-1]:d.ps[0]; Point want; if(ce[q].type()==ConnEndJunction) want=ce[q].junction()->position(); else if(ce[q].type()==ConnEndShapePin) want=ce[q].position(); else continue; Point rec=want; if(ce[q].type()==ConnEndJunction) rec=ce[q].junction()->recommendedPosition(); if(!((fabs(p.x-want.x)<1e-6&&fabs(p.y-want.y)<1e-6)||(fabs(p.x-rec.x)<1e-6&&fabs(p.y-rec.y)<1e-6))){badRouteEnds++; if(badRouteEnds<=3)printf("ROUTEEND seed=%u t=%d got (%g,%g) want (%g,%g) rec (%g,%g)\n",seed,t,p.x,p.y,want.x,want.y,rec.x,rec.y);} } } }
   if(dangling){badDangling++; if(badDangling<=3)printf("DANGLING seed=%u t=%d\n",seed,t);} 
   // terminals preserved
   bool termOK=termSeen.size()==(size_t)k; for(int i=0;i<k;i++) if(!termSeen.count(sh[i])) termOK=false; if(!termOK){badTerm++; if(badTerm<=3)printf("TERMINALS seed=%u t=%d seen=%zu want=%d\n",seed,t,termSeen.size(),k);} 
   // tree: connected & |E| = |V|-1 over nodes
   int V=id.size(); std::vector<int> par(V); for(int i=0;i<V;i++)par[i]=i; std::function<int(int)> f=[&](int x){return par[x]==x?x:par[x]=f(par[x]);}; bool cyc=false; for(auto&e:edges){int a=f(e.first),b=f(e.second); if(a==b)cyc=true; else par[a]=b;} int comps=0; for(int i=0;i<V;i++) if(f(i)==i)comps++; if(cyc||comps!=1||(int)edges.size()!=V-1){badTree++; if(badTree<=3)printf("NOTTREE seed=%u t=%d V=%d E=%zu comps=%d cyc=%d junctions=%d\n",seed,t,V,edges.size(),comps,cyc,njunc);} 
   // lists consistency
   HyperedgeNewAndDeletedObjectLists L=(mode&2)?router->hyperedgeRerouter()->newAndDeletedObjectLists(0):router->newAndDeletedObjectListsFromHyperedgeImprovement(); std::set<void*> live; for(Obstacle*o:router->m_obstacles)live.insert(o); for(ConnRef*c:router->connRefs)live.insert(c); for(auto*x:L.newJunctionList) if(!live.count(x)){badLists++;} for(auto*x:L.newConnectorList) if(!live.count(x)){badLists++;} for(auto*x:L.deletedJunctionList) if(live.count(x)){badLists++;} for(auto*x:L.deletedConnectorList) if(live.count(x)){badLists++;}
   cases++; delete router; } catch(vpsc::CriticalFailure&f){asserts++; if(asserts<=3)printf("ASSERT seed=%u t=%d %s\n",seed,t,f.what().c_str());} }
 printf("seed=%u mode=%d cases=%d asserts=%d notTree=%d terminals=%d dangling=%d lists=%d routeEnds=%d\n",seed,mode,cases,asserts,badTree,badTerm,badDangling,badLists,badRouteEnds);
}
