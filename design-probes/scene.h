#pragma once
#include "libavoid/libavoid.h"
#include <random>
#include <vector>
#include <cmath>
#include <queue>
#include <cstdio>
struct R{long x0,y0,x1,y1;};
struct Pt{long x,y;};
struct Scene{ std::vector<R> rs; std::vector<std::pair<Pt,Pt>> conns; };
// exact: does segment p->q pass through open interior of r ?
static bool segHitsOpenRect(Pt p,Pt q,const R&r){ // t in [0,1], need open-interval intersection; use rationals num/den with den>0
  long dx=q.x-p.x, dy=q.y-p.y; // interval for x: (x0-px)/dx .. (x1-px)/dx
  // represent lo,hi as fractions; use long double is risky; use __int128 cross-mult
  struct F{__int128 n,d;}; auto lt=[](F a,F b){return a.n*b.d<b.n*a.d;}; auto mx=[&](F a,F b){return lt(a,b)?b:a;}; auto mn=[&](F a,F b){return lt(a,b)?a:b;};
  F lo{-1,1}, hi{2,1}; // start with (-1,2) superset of [0,1]; handle closed [0,1] at end
  auto clip=[&](long p0,long d,long a,long b)->bool{ if(d==0){ return (a<p0&&p0<b);} F t1{a-p0,d},t2{b-p0,d}; if(d<0){t1.n=-t1.n;t1.d=-t1.d;t2.n=-t2.n;t2.d=-t2.d; std::swap(t1,t2);} lo=mx(lo,t1); hi=mn(hi,t2); return true;};
  if(!clip(p.x,dx,r.x0,r.x1)) return false; if(!clip(p.y,dy,r.y0,r.y1)) return false;
  // (lo,hi) ∩ [0,1] nonempty
  F zero{0,1},one{1,1}; return lt(lo,hi)&&lt(lo,one)&&lt(zero,hi);
}
static bool inClosed(Pt p,const R&r,long m=0){return p.x>=r.x0-m&&p.x<=r.x1+m&&p.y>=r.y0-m&&p.y<=r.y1+m;}
static double dist(Pt a,Pt b){return std::hypot((double)(a.x-b.x),(double)(a.y-b.y));}
// oracle: euclid shortest path length over visibility graph; returns -1 if none
static double oracleSP(const std::vector<R>&rs,Pt s,Pt t){ std::vector<Pt> v{s,t}; for(auto&r:rs){v.push_back({r.x0,r.y0});v.push_back({r.x1,r.y0});v.push_back({r.x1,r.y1});v.push_back({r.x0,r.y1});} int n=v.size(); std::vector<double> d(n,1e300); d[0]=0; std::vector<char> done(n,0); for(;;){int u=-1; for(int i=0;i<n;i++) if(!done[i]&&d[i]<1e299&&(u<0||d[i]<d[u]))u=i; if(u<0)break; done[u]=1; if(u==1)break; for(int w=0;w<n;w++){ if(done[w])continue; bool ok=true; for(auto&r:rs) if(segHitsOpenRect(v[u],v[w],r)){ok=false;break;} if(ok&&d[u]+dist(v[u],v[w])<d[w]) d[w]=d[u]+dist(v[u],v[w]); } } return d[1]<1e299?d[1]:-1; }
template<class RNG> Scene genScene(RNG&rng,int maxR,int span,int gap,int nconn){ auto U=[&](int a,int b){return (long)(rng()%(b-a+1))+a;}; Scene sc; int k=U(0,maxR); for(int i=0,tries=0;i<k&&tries<200;tries++){ R r; r.x0=U(0,span); r.y0=U(0,span); r.x1=r.x0+U(1,span/2+1); r.y1=r.y0+U(1,span/2+1); bool ok=true; for(auto&o:sc.rs){ if(r.x0<o.x1+gap&&o.x0<r.x1+gap&&r.y0<o.y1+gap&&o.y0<r.y1+gap) ok=false;} if(ok){sc.rs.push_back(r);i++;} } for(int c=0;c<nconn;c++){ Pt a,b; for(int e=0;e<2;e++){ Pt p; for(;;){ p={U(-3,span*3/2+3),U(-3,span*3/2+3)}; bool ok=true; for(auto&r:sc.rs) if(inClosed(p,r,0)) ok=false; if(ok)break;} (e?b:a)=p;} if(a.x==b.x&&a.y==b.y){c--;continue;} sc.conns.push_back({a,b}); } return sc; }
static double routeLen(const Avoid::PolyLine&r){double l=0; for(size_t i=1;i<r.size();i++) l+=std::hypot(r.ps[i].x-r.ps[i-1].x,r.ps[i].y-r.ps[i-1].y); return l;}
