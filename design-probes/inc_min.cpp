#include "libavoid/libavoid.h"
#include <cstdio>
#include <cstdlib>
using namespace Avoid;
static void pr(const char*t,ConnRef*c){ printf("%s:",t); const PolyLine&r=c->route(); for(size_t i=0;i<r.size();i++) printf(" (%g,%g)",r.ps[i].x,r.ps[i].y); printf("\n");}
int main(int argc,char**argv){ int lee=argc>1?atoi(argv[1]):1, inv=argc>2?atoi(argv[2]):1, sel=argc>3?atoi(argv[3]):1;
 Router*router=new Router(PolyLineRouting); router->UseLeesAlgorithm=lee; router->InvisibilityGrph=inv; router->SelectiveReroute=sel; router->setRoutingParameter(segmentPenalty,0);
 Rectangle a(Point(15,10),Point(20,13)), b(Point(8,11),Point(12,19)); ShapeRef*sa=new ShapeRef(router,a); ShapeRef*sb=new ShapeRef(router,b);
 ConnRef*c=new ConnRef(router,ConnEnd(Point(30,13)),ConnEnd(Point(-1,11))); router->processTransaction(); pr("initial",c);
 Rectangle b2(Point(13,16),Point(17,24)); router->moveShape(sb,b2); router->processTransaction(); pr("after move",c);
 c->makePathInvalid(); router->moveShape(sa,0,0); router->processTransaction(); pr("after forced reroute",c);
 delete router; }
