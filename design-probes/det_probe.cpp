#include <cstddef>
#include <cstdlib>
#include <cstdio>
#include <cstring>
#include <new>
#include <vector>
#include <random>
#include <set>
#include "libvpsc/rectangle.h"
// allocation permuter: small allocations come from a pool whose free slots are handed out in seeded pseudo-random order
static bool g_on=false; static unsigned g_state=1; static const size_t SLOT=256, NSLOT=1<<14; static char* g_pool=nullptr; static std::vector<unsigned>* g_free=nullptr;
static unsigned rnd(){ g_state=g_state*1664525u+1013904223u; return g_state>>8; }
void* operator new(size_t n){ if(g_on&&n<=SLOT&&g_free&&!g_free->empty()){ size_t k=rnd()%g_free->size(); unsigned s=(*g_free)[k]; (*g_free)[k]=g_free->back(); g_free->pop_back(); return g_pool+(size_t)s*SLOT;} void*p=malloc(n?n:1); if(!p) throw std::bad_alloc(); return p; }
void operator delete(void*p) noexcept { if(g_pool&&(char*)p>=g_pool&&(char*)p<g_pool+SLOT*NSLOT){ bool was=g_on; g_on=false; g_free->push_back(((char*)p-g_pool)/SLOT); g_on=was; return;} free(p);} 
void operator delete(void*p,size_t) noexcept { operator delete(p);} 
using namespace vpsc;
int main(int argc,char**argv){ unsigned seed=argc>1?atoi(argv[1]):1; int N=argc>2?atoi(argv[2]):300; g_pool=(char*)malloc(SLOT*NSLOT); g_free=new std::vector<unsigned>(); g_free->reserve(NSLOT*2); for(unsigned i=0;i<NSLOT;i++)g_free->push_back(i);
 std::mt19937 rng(seed); auto U=[&](int a,int b){return (int)(rng()%(b-a+1))+a;}; int diff=0, coincident=0;
 for(int t=0;t<N;t++){ int n=U(2,12); std::vector<double> X,Y,W,H; for(int i=0;i<n;i++){ if(i>0&&U(0,2)==0){X.push_back(X[0]);Y.push_back(Y[0]);W.push_back(W[0]);H.push_back(H[0]);} else {X.push_back(U(0,40));Y.push_back(U(0,40));W.push_back(U(1,10));H.push_back(U(1,10));} }
  std::vector<std::vector<double>> res; for(int run=0;run<2;run++){ g_state=run?seed*7919u+t:12345u; g_on=true; Rectangles rs; for(int i=0;i<n;i++) rs.push_back(new Rectangle(X[i],X[i]+W[i],Y[i],Y[i]+H[i])); removeoverlaps(rs); std::vector<double> r; for(auto q:rs){r.push_back(q->getMinX());r.push_back(q->getMinY()); delete q;} g_on=false; res.push_back(r);} 
  if(memcmp(res[0].data(),res[1].data(),res[0].size()*sizeof(double))!=0){diff++; if(diff<=3){printf("NONDET seed=%u t=%d n=%d\n",seed,t,n);} } }
 printf("seed=%u cases=%d nondeterministic=%d\n",seed,N,diff);
}
