#include <cstddef>
#include <cstdlib>
#include "libvpsc/solve_VPSC.h"
#include "libvpsc/variable.h"
#include "libvpsc/constraint.h"
#include <cstdio>
using namespace vpsc;
int main(int argc,char**argv){
 double d[]={1,2,9.75,2,-9.25,-2.25,0}, w[]={2,16,0.125,2,1,32,8};
 int cl[]={0,2,3,0,1,0,2,2}, cr[]={4,4,4,5,4,2,5,6}; double g[]={2,-4,-1.5,6,-3.5,-1,0,-1.5};
 for(int inc=0;inc<2;inc++){
 Variables vs; Constraints cs; for(int i=0;i<7;i++) vs.push_back(new Variable(i,d[i],w[i])); for(int j=0;j<8;j++) cs.push_back(new Constraint(vs[cl[j]],vs[cr[j]],g[j]));
 Solver *s = inc? new IncSolver(vs,cs): new Solver(vs,cs);
 for(int k=0;k<(inc?4:1);k++){ s->solve(); double f=0; for(int i=0;i<7;i++) f+=w[i]*(vs[i]->finalPosition-d[i])*(vs[i]->finalPosition-d[i]); printf("inc=%d solve#%d obj=%g\n",inc,k,f);}
 for(int i=0;i<7;i++){ printf("%d: %g\n",i,vs[i]->finalPosition);}
 for(int j=0;j<8;j++) printf(" c%d active=%d lm=%g slack=%g\n",j,cs[j]->active,cs[j]->lm,cs[j]->slack());
 delete s;
 }
}
