#!/bin/bash
# build all five libs into one static archive with given flags
set -e
OUT=${1:-/tmp/scratch/obj}; shift || true
FLAGS=${FLAGS:-"-std=gnu++17 -g -O1 -fsanitize=address,undefined -fno-sanitize-recover=undefined -fno-omit-frame-pointer"}
CXX=${CXX:-clang++}
mkdir -p $OUT
cd /repo/cola
ls libvpsc/*.cpp libcola/*.cpp libavoid/*.cpp libtopology/*.cpp libdialect/*.cpp | grep -v -e '/tests/' > $OUT/srcs.txt
cat $OUT/srcs.txt | xargs -P 16 -I{} bash -c 'f={}; o='$OUT'/$(echo $f | tr / _ | sed s/.cpp$/.o/); '"$CXX $FLAGS"' -w -I/repo/cola -c $f -o $o || echo FAIL $f'
rm -f $OUT/libadapt.a; ar rcs $OUT/libadapt.a $OUT/*.o
