#include "libdialect/commontypes.h"
#include "libdialect/io.h"
#include "libdialect/util.h"
#include "libdialect/graphs.h"
#include "libdialect/opts.h"
#include "libdialect/hola.h"
#include <random>
#include <sstream>
#include <cstdio>
#include <set>
using namespace dialect;
int main(int argc,char**argv){ unsigned seed=argc>1?atoi(argv[1]):1; int N=argc>2?atoi(argv[2]):30; int maxn=argc>3?atoi(argv[3]):12; int mode=argc>4?atoi(argv[4]):0; std::mt19937 rng(seed); auto U=[&](int a,int b){return (int)(rng()%(b-a+1))+a;};
 int cases=0,exc=0,badov=0,badsz=0,badroute=0,badthru=0,badcount=0,badends=0;
 for(int t=0;t<N;t++){ int n=U(2,maxn); std::ostringstream tg; std::vector<std::pair<double,double>> dims; for(int i=0;i<n;i++){ double w=U(2,8)*10,h=U(2,6)*10; dims.push_back({w,h}); tg<<i<<" "<<U(0,400)<<" "<<U(0,400)<<" "<<w<<" "<<h<<"\n";} tg<<"#\n"; std::set<std::pair<int,int>> E; for(int i=1;i<n;i++){ int p=U(0,i-1); E.insert({p,i}); } int extra= (mode&1)? U(0,n): U(0,2); for(int j=0;j<extra;j++){int a=U(0,n-1),b=U(0,n-1); if(a==b)continue; if(a>b)std::swap(a,b); E.insert({a,b});} for(auto&e:E) tg<<e.first<<" "<<e.second<<"\n";
  Graph_SP g; try{ std::istringstream in(tg.str()); g=buildGraphFromTglf(in); HolaOpts opts; if(mode&2) opts.useACAforLinks=false; if(mode&4) opts.do_near_align=false; doHOLA(*g,opts); } catch(std::exception&e){ exc++; if(exc<=3)printf("EXC seed=%u t=%d n=%d m=%zu: %s\n",seed,t,n,E.size(),e.what()); continue;} catch(vpsc::CriticalFailure&f){ exc++; if(exc<=3)printf("ASSERT seed=%u t=%d n=%d m=%zu: %s\n",seed,t,n,E.size(),f.what().c_str()); continue;} catch(...){exc++; printf("EXC? seed=%u t=%d\n",seed,t); continue;}
  cases++;
  if((int)g->getNumNodes()!=n||(int)g->getNumEdges()!=(int)E.size()) badcount++;
  std::vector<Node_SP> nodes; for(auto&p:g->getNodeLookup()) nodes.push_back(p.second);
  std::map<unsigned,Node_SP> byExt; for(auto&u:nodes) byExt[u->getExternalId()]=u;
  for(auto&u:nodes){ auto d=u->getDimensions(); auto&o=dims[u->getExternalId()]; if(fabs(d.first-o.first)>1e-6||fabs(d.second-o.second)>1e-6){badsz++; if(badsz<=3)printf("SIZE seed=%u t=%d node %u: %g x %g vs %g x %g\n",seed,t,u->getExternalId(),d.first,d.second,o.first,o.second);} }
  for(size_t i=0;i<nodes.size();i++)for(size_t j=i+1;j<nodes.size();j++){ auto a=nodes[i]->getBoundingBox(),b=nodes[j]->getBoundingBox(); double ox=std::min(a.X,b.X)-std::max(a.x,b.x), oy=std::min(a.Y,b.Y)-std::max(a.y,b.y); if(ox>1e-6&&oy>1e-6){badov++; if(badov<=3)printf("OVERLAP seed=%u t=%d\n",seed,t);} }
  for(auto&p:g->getEdgeLookup()){ Edge_SP e=p.second; std::vector<Avoid::Point> r=e->getRoute(); if(r.size()<2){badroute++; if(badroute<=3)printf("NOROUTE seed=%u t=%d size=%zu\n",seed,t,r.size()); continue;} std::pair<Node_SP,Node_SP> ends{e->getSourceEnd(),e->getTargetEnd()}; auto sb=ends.first->getBoundingBox(), tb=ends.second->getBoundingBox(); auto inb=[&](BoundingBox b,Avoid::Point q,double pad){return q.x>=b.x-pad&&q.x<=b.X+pad&&q.y>=b.y-pad&&q.y<=b.Y+pad;}; if(!inb(sb,r.front(),20)||!inb(tb,r.back(),20)){ if(!(inb(tb,r.front(),20)&&inb(sb,r.back(),20))){badends++; if(badends<=3)printf("ENDS seed=%u t=%d\n",seed,t);} }
    for(size_t k=1;k<r.size();k++){ if(fabs(r[k].x-r[k-1].x)>1e-9&&fabs(r[k].y-r[k-1].y)>1e-9){badroute++; if(badroute<=3)printf("DIAGONAL seed=%u t=%d (%g,%g)-(%g,%g)\n",seed,t,r[k-1].x,r[k-1].y,r[k].x,r[k].y);} for(auto&u:nodes){ if(u==ends.first||u==ends.second)continue; auto b=u->getBoundingBox(); double ax=std::min(r[k].x,r[k-1].x),bx=std::max(r[k].x,r[k-1].x),ay=std::min(r[k].y,r[k-1].y),by=std::max(r[k].y,r[k-1].y); if(bx>b.x+1e-6&&ax<b.X-1e-6&&by>b.y+1e-6&&ay<b.Y-1e-6){badthru++; if(badthru<=3)printf("THROUGH seed=%u t=%d\n",seed,t);} } } }
 }
 printf("seed=%u mode=%d cases=%d exceptions=%d count=%d size=%d overlap=%d route=%d ends=%d through=%d\n",seed,mode,cases,exc,badcount,badsz,badov,badroute,badends,badthru);
}
