#include <cmath>
#include <algorithm>
#include "libavoid/geometry.h"
#include "libavoid/geomtypes.h"
#include <cstdio>
#include <vector>
#include <cstdlib>
using namespace Avoid;
typedef long long L;
static L cross(L ax,L ay,L bx,L by,L cx,L cy){return (bx-ax)*(cy-ay)-(cx-ax)*(by-ay);}
static int sgn(L v){return v>0?1:v<0?-1:0;}
int main(){ const int G=5; long n3=0,n4=0; long bad_vecdir=0,bad_col=0,bad_pol=0,bad_si=0,bad_sip=0,bad_sym=0, bad_sipxy=0;
 for(int ax=0;ax<G;ax++)for(int ay=0;ay<G;ay++)for(int bx=0;bx<G;bx++)for(int by=0;by<G;by++)for(int cx=0;cx<G;cx++)for(int cy=0;cy<G;cy++){ n3++; Point a(ax,ay),b(bx,by),c(cx,cy); L cr=cross(ax,ay,bx,by,cx,cy); if(vecDir(a,b,c)!=sgn(cr))bad_vecdir++; bool col=(cr==0); if(colinear(a,b,c)!=col)bad_col++;
   // open segment: c strictly between a and b
   bool on=false; if(cr==0&&!(ax==bx&&ay==by)){ L dot=(cx-ax)*(bx-ax)+(cy-ay)*(by-ay); L len=(bx-ax)*(bx-ax)+(by-ay)*(by-ay); on=(dot>0&&dot<len);} if(pointOnLine(a,b,c)!=on){bad_pol++; if(bad_pol<=5)printf("pointOnLine a=(%d,%d) b=(%d,%d) c=(%d,%d) lib=%d ref=%d\n",ax,ay,bx,by,cx,cy,(int)pointOnLine(a,b,c),(int)on);} 
   for(int dx=0;dx<G;dx++)for(int dy=0;dy<G;dy++){ n4++; Point d(dx,dy); // proper intersection of ab and cd via rational params
     L den=(L)(bx-ax)*(dy-cy)-(L)(by-ay)*(dx-cx); bool proper=false; if(den!=0){ L tn=(L)(cx-ax)*(dy-cy)-(L)(cy-ay)*(dx-cx); L sn=(L)(cx-ax)*(by-ay)-(L)(cy-ay)*(bx-ax); if(den<0){den=-den;tn=-tn;sn=-sn;} proper=(tn>0&&tn<den&&sn>0&&sn<den);} bool lib=segmentIntersect(a,b,c,d); if(lib!=proper){bad_si++; if(bad_si<=5)printf("segmentIntersect (%d,%d)(%d,%d) x (%d,%d)(%d,%d) lib=%d ref=%d\n",ax,ay,bx,by,cx,cy,dx,dy,lib,proper);} if(lib!=segmentIntersect(c,d,a,b)||lib!=segmentIntersect(b,a,d,c))bad_sym++;
     // segmentIntersectPoint classes
     double x=0,y=0; int cls=segmentIntersectPoint(a,b,c,d,&x,&y); L den2=(L)(bx-ax)*(dy-cy)-(L)(by-ay)*(dx-cx); int ref; double rx=0,ry=0; if(den2!=0){ L tn=(L)(cx-ax)*(dy-cy)-(L)(cy-ay)*(dx-cx); L sn=(L)(cx-ax)*(by-ay)-(L)(cy-ay)*(bx-ax); L dd=den2; if(dd<0){dd=-dd;tn=-tn;sn=-sn;} if(tn>=0&&tn<=dd&&sn>=0&&sn<=dd){ref=DO_INTERSECT; rx=ax+(double)tn/dd*(bx-ax); ry=ay+(double)tn/dd*(by-ay);} else ref=DONT_INTERSECT; } else { // parallel (incl zero-length): PARALLEL iff collinear and closed segs share a point
        bool share=false; // all four collinear?
        bool colAll = cross(ax,ay,bx,by,cx,cy)==0 && cross(ax,ay,bx,by,dx,dy)==0 && cross(cx,cy,dx,dy,ax,ay)==0 && cross(cx,cy,dx,dy,bx,by)==0; if(colAll){ // bbox overlap on both axes suffices for collinear
           int lo1x=std::min(ax,bx),hi1x=std::max(ax,bx),lo2x=std::min(cx,dx),hi2x=std::max(cx,dx),lo1y=std::min(ay,by),hi1y=std::max(ay,by),lo2y=std::min(cy,dy),hi2y=std::max(cy,dy); share= lo1x<=hi2x&&lo2x<=hi1x&&lo1y<=hi2y&&lo2y<=hi1y; // for degenerate point-vs-segment need point on segment: collinear + bbox ok
        } ref= share?PARALLEL:DONT_INTERSECT; }
     if(cls!=ref){bad_sip++; if(bad_sip<=8)printf("segIntersectPoint (%d,%d)(%d,%d) x (%d,%d)(%d,%d) lib=%d ref=%d\n",ax,ay,bx,by,cx,cy,dx,dy,cls,ref);} else if(cls==DO_INTERSECT&&(fabs(x-rx)>1e-12||fabs(y-ry)>1e-12))bad_sipxy++; }
 }
 printf("n3=%ld n4=%ld vecDir=%ld colinear=%ld pointOnLine=%ld segmentIntersect=%ld symmetry=%ld segIntersectPoint=%ld xy=%ld\n",n3,n4,bad_vecdir,bad_col,bad_pol,bad_si,bad_sym,bad_sip,bad_sipxy);
}
