#include <cstddef>
#include <cstdlib>
#include "libvpsc/solve_VPSC.h"
#include "libvpsc/variable.h"
#include "libvpsc/constraint.h"
#include <cstdio>
using namespace vpsc;
int main(int argc,char**argv){
 double d[]={1,2,9.75,2,-9.25,-2.25,0}, w[]={2,16,0.125,2,1,32,8};
 int cl[]={0,2,3,0,1,0,2,2}, cr[]={4,4,4,5,4,2,5,6}; double g[]={2,-4,-1.5,6,-3.5,-1,0,-1.5};
 Variables vs; Constraints cs; for(int i=0;i<7;i++) vs.push_back(new Variable(i,d[i],w[i])); for(int j=0;j<8;j++) cs.push_back(new Constraint(vs[cl[j]],vs[cr[j]],g[j]));
 IncSolver *s = new IncSolver(vs,cs);
 for(int k=0;k<6;k++){ s->satisfy(); double f=0; for(int i=0;i<7;i++) f+=w[i]*(vs[i]->finalPosition-d[i])*(vs[i]->finalPosition-d[i]); printf("satisfy#%d obj=%.6f active:",k,f); for(int j=0;j<8;j++) if(cs[j]->active) printf(" c%d(lm=%g)",j,cs[j]->lm); printf("\n   pos:"); for(int i=0;i<7;i++) printf(" %g",vs[i]->finalPosition); printf("\n");}
 delete s; for(auto c:cs) delete c; for(auto v:vs) delete v;
}
