#include "libavoid/libavoid.h"
#include "libtopology/cola_topology_addon.h"
#include "libcola/cola.h"
#include <random>
#include <cstdio>
using namespace cola;
int main(int argc,char**argv){ unsigned seed=argc>1?atoi(argv[1]):1; int N=argc>2?atoi(argv[2]):50; int maxn=argc>3?atoi(argv[3]):8; std::mt19937 rng(seed); auto U=[&](int a,int b){return (int)(rng()%(b-a+1))+a;};
 int cases=0,asserts=0,badInter=0,badOv=0,badEnds=0,badBend=0,nontriv=0;
 for(int t=0;t<N;t++){ unsigned n=U(2,maxn); std::vector<vpsc::Rectangle*> rs; for(unsigned i=0,tries=0;i<n&&tries<500;tries++){ double x=U(0,30)*10,y=U(0,30)*10,w=U(2,6)*10,h=U(1,4)*10; bool ok=true; for(auto r:rs) if(x<r->getMaxX()+10&&r->getMinX()<x+w+10&&y<r->getMaxY()+10&&r->getMinY()<y+h+10) ok=false; if(ok){rs.push_back(new vpsc::Rectangle(x,x+w,y,y+h));i++;} } n=rs.size(); if(n<2) continue; std::vector<Edge> es; int m=U(1,n+2); for(int j=0;j<m;j++){unsigned a=U(0,n-1),b=U(0,n-1); if(a==b)continue; bool dup=false; for(auto&e:es) if((e.first==a&&e.second==b)||(e.first==b&&e.second==a))dup=true; if(!dup)es.push_back({a,b});} if(es.empty())continue;
  std::vector<topology::Node*> tn; for(unsigned i=0;i<n;i++) tn.push_back(new topology::Node(i,rs[i])); std::vector<topology::Edge*> routes;
  Avoid::Router*router=new Avoid::Router(Avoid::PolyLineRouting); router->UseLeesAlgorithm=true; router->InvisibilityGrph=false; for(unsigned i=0;i<n;i++){ Avoid::Rectangle sr(Avoid::Point(rs[i]->getMinX(),rs[i]->getMinY()),Avoid::Point(rs[i]->getMaxX(),rs[i]->getMaxY())); new Avoid::ShapeRef(router,sr,i+1);} std::vector<Avoid::ConnRef*> crs; for(unsigned i=0;i<es.size();i++){ auto r0=rs[es[i].first],r1=rs[es[i].second]; crs.push_back(new Avoid::ConnRef(router,Avoid::Point(r0->getCentreX(),r0->getCentreY()),Avoid::Point(r1->getCentreX(),r1->getCentreY()),i+n+1)); } router->processTransaction();
  bool bends=false; for(unsigned i=0;i<es.size();i++){ const Avoid::Polygon&route=crs[i]->route(); std::vector<topology::EdgePoint*> eps; eps.push_back(new topology::EdgePoint(tn[es[i].first],topology::EdgePoint::CENTRE)); for(size_t j=1;j+1<route.size();j++){ const Avoid::Point&p=route.ps[j]; topology::EdgePoint::RectIntersect ri; switch(p.vn){case 0:ri=topology::EdgePoint::BR;break;case 1:ri=topology::EdgePoint::TR;break;case 2:ri=topology::EdgePoint::TL;break;case 3:ri=topology::EdgePoint::BL;break;default:ri=topology::EdgePoint::CENTRE;} eps.push_back(new topology::EdgePoint(tn[p.id-1],ri)); bends=true;} eps.push_back(new topology::EdgePoint(tn[es[i].second],topology::EdgePoint::CENTRE)); routes.push_back(new topology::Edge(i,60,eps)); }
  delete router; if(bends)nontriv++;
  try{ ConstrainedFDLayout alg(rs,es,60); topology::ColaTopologyAddon topo(tn,routes); alg.setTopology(&topo); alg.setAvoidNodeOverlaps(true); alg.run(); }
  catch(vpsc::CriticalFailure&f){ asserts++; if(asserts<=3)printf("ASSERT seed=%u t=%d %s\n",seed,t,f.what().c_str()); continue;} catch(...){asserts++; printf("EXC other\n"); continue;}
  cases++;
  // checks
  for(unsigned i=0;i<n;i++)for(unsigned j=i+1;j<n;j++){ double ox=std::min(rs[i]->getMaxX(),rs[j]->getMaxX())-std::max(rs[i]->getMinX(),rs[j]->getMinX()); double oy=std::min(rs[i]->getMaxY(),rs[j]->getMaxY())-std::max(rs[i]->getMinY(),rs[j]->getMinY()); if(ox>1e-3&&oy>1e-3){badOv++; if(badOv<=3)printf("NODEOVERLAP seed=%u t=%d\n",seed,t);} }
  for(unsigned e=0;e<routes.size();e++){ topology::ConstEdgePoints path; routes[e]->getPath(path); if(path.front()->node->id!=es[e].first||path.back()->node->id!=es[e].second) badEnds++; for(size_t k=1;k<path.size();k++){ double x0=path[k-1]->posX(),y0=path[k-1]->posY(),x1=path[k]->posX(),y1=path[k]->posY(); for(unsigned v=0;v<n;v++){ if(v==es[e].first||v==es[e].second)continue; // liang-barsky with shrink
      double rx0=rs[v]->getMinX()+1e-6,rx1=rs[v]->getMaxX()-1e-6,ry0=rs[v]->getMinY()+1e-6,ry1=rs[v]->getMaxY()-1e-6; double t0=0,t1=1,dx=x1-x0,dy=y1-y0; bool out=false; auto clip=[&](double p,double q){ if(p==0){ if(q<0)out=true; return;} double r=q/p; if(p<0){ if(r>t1)out=true; else if(r>t0)t0=r;} else { if(r<t0)out=true; else if(r<t1)t1=r;} }; clip(-dx,x0-rx0); if(!out)clip(dx,rx1-x0); if(!out)clip(-dy,y0-ry0); if(!out)clip(dy,ry1-y0); if(!out&&t0<t1){badInter++; if(badInter<=3)printf("INTERSECT seed=%u t=%d edge=%u node=%u\n",seed,t,e,v);} } } }
  for(auto r:rs)delete r; }
 printf("seed=%u cases=%d nontrivial(bends)=%d asserts=%d segIntersect=%d nodeOverlap=%d badEnds=%d\n",seed,cases,nontriv,asserts,badInter,badOv,badEnds);
}
