#include "libavoid/libavoid.h"
#include <cstdio>
using namespace Avoid;
static void pr(ConnRef*c){ const PolyLine& r=c->displayRoute(); for(size_t i=0;i<r.size();++i) printf("(%g,%g) ",r.ps[i].x,r.ps[i].y); printf("\n");}
int main(int argc,char**argv){
  for(int mode=1;mode<=2;mode++){
  Router *router = new Router(mode==1?PolyLineRouting:OrthogonalRouting);
  if(mode==1) router->setRoutingParameter(segmentPenalty,0);
  Rectangle r(Point(10,10),Point(20,20));
  new ShapeRef(router,r);
  ConnRef *c=new ConnRef(router,ConnEnd(Point(0,0)),ConnEnd(Point(30,30)));
  c->setRoutingType(mode==1?ConnType_PolyLine:ConnType_Orthogonal);
  ConnRef *c2=new ConnRef(router,ConnEnd(Point(5,15)),ConnEnd(Point(25,15)));
  c2->setRoutingType(mode==1?ConnType_PolyLine:ConnType_Orthogonal);
  router->processTransaction();
  pr(c); pr(c2);
  delete router;}
}
