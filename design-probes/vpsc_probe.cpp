#include <cstddef>
#include <cstdlib>
#include "libvpsc/solve_VPSC.h"
#include "libvpsc/variable.h"
#include "libvpsc/constraint.h"
#include "libvpsc/exceptions.h"
#include <random>
#include <cstdio>
#include <cmath>
#include <vector>
#include <algorithm>
using namespace vpsc;
struct C{int l,r;double g;bool eq;};
struct P{int n; std::vector<double> d,w,s; std::vector<C> cs;};
// Bellman-Ford positive cycle (unscaled)
static bool feasible(const P&p){ std::vector<double> x(p.n,0); for(int it=0;it<=p.n;it++){bool ch=false; for(auto&c:p.cs){ if(x[c.l]+c.g>x[c.r]+1e-12){x[c.r]=x[c.l]+c.g;ch=true;} if(c.eq && x[c.r]-c.g>x[c.l]+1e-12){x[c.l]=x[c.r]-c.g;ch=true;} } if(!ch) return true;} return false;}
// Hildreth
static bool oracle(const P&p,std::vector<double>&x,double&res){ int m=p.cs.size(); std::vector<double> lam(m,0); x=p.d; std::vector<double> q(m); for(int c=0;c<m;c++){auto&k=p.cs[c]; q[c]= p.s[k.r]*p.s[k.r]/(2*p.w[k.r]) + p.s[k.l]*p.s[k.l]/(2*p.w[k.l]);}
 for(int it=0;it<200000;it++){ double mx=0; for(int c=0;c<m;c++){auto&k=p.cs[c]; double r=k.g-(p.s[k.r]*x[k.r]-p.s[k.l]*x[k.l]); double nl=lam[c]+r/q[c]; if(!k.eq && nl<0) nl=0; double dl=nl-lam[c]; if(dl!=0){ lam[c]=nl; x[k.r]+=dl*p.s[k.r]/(2*p.w[k.r]); x[k.l]-=dl*p.s[k.l]/(2*p.w[k.l]); mx=std::max(mx,fabs(dl*q[c])); } } if(mx<1e-12){res=mx; return true;} res=mx;} return false;}
int main(int argc,char**argv){ unsigned seed=argc>1?atoi(argv[1]):1; int N=argc>2?atoi(argv[2]):2000; int mode=argc>3?atoi(argv[3]):0; std::mt19937 rng(seed);
 auto U=[&](int a,int b){return (int)(rng()%(b-a+1))+a;};
 int bad=0, infeas=0, flagged=0, oraclefail=0, thrown=0;
 for(int t=0;t<N;t++){ P p; p.n=U(1,8+(t%5)*6); for(int i=0;i<p.n;i++){p.d.push_back(U(-40,40)/4.0); p.w.push_back(mode&1? std::ldexp(1.0,U(-3,6)) :1.0); p.s.push_back((mode&8)? std::ldexp(1.0,U(-1,2)) : 1.0);} int m=U(0,2*p.n); bool dag=(mode&2); for(int j=0;j<m;j++){int a=U(0,p.n-1),b=U(0,p.n-1); if(a==b) continue; if(dag&&a>b) std::swap(a,b); p.cs.push_back({a,b,U(-8,12)/2.0,(mode&4)&&U(0,5)==0}); }
  for(int inc=0;inc<2;inc++){ if(!inc && !dag) continue; // static only on DAG
   Variables vs; Constraints cs; for(int i=0;i<p.n;i++) vs.push_back(new Variable(i,p.d[i],p.w[i],p.s[i])); for(auto&c:p.cs) cs.push_back(new Constraint(vs[c.l],vs[c.r],c.g,c.eq));
   bool thr=false; try{ if(inc){IncSolver s(vs,cs); s.solve();} else {Solver s(vs,cs); s.solve();} } catch(UnsatisfiedConstraint&){thr=true;} catch(char*){thr=true;} 
   bool feas=feasible(p); bool anyflag=false; double worst=0; for(size_t j=0;j<cs.size();j++){ if(cs[j]->unsatisfiable){anyflag=true;continue;} double sl=p.s[p.cs[j].r]*vs[p.cs[j].r]->finalPosition - p.s[p.cs[j].l]*vs[p.cs[j].l]->finalPosition - p.cs[j].g; if(p.cs[j].eq) worst=std::max(worst,fabs(sl)); else worst=std::max(worst,-sl);} 
   if(thr) thrown++;
   if(!feas) infeas++; if(anyflag) flagged++;
   bool viol=false; const char*why="";
   if(!thr && worst>1e-6){viol=true;why="unsat-not-flagged";}
   bool ineqonly=true; for(auto&c:p.cs) if(c.eq) ineqonly=false;
   if(ineqonly && (anyflag||thr)!=!feas){viol=true; why= feas?"flag-but-feasible":"infeasible-not-flagged";}
   if(!viol && feas && !anyflag && !thr){ std::vector<double> x; double res; if(oracle(p,x,res)){ double sc=1; for(int i=0;i<p.n;i++) sc=std::max(sc,fabs(p.d[i])); for(int i=0;i<p.n;i++) if(fabs(x[i]-vs[i]->finalPosition)>1e-5*sc){viol=true;why="not-optimal";} if(viol){double fo=0,fs=0,mf=0; for(int i=0;i<p.n;i++){fo+=p.w[i]*(x[i]-p.d[i])*(x[i]-p.d[i]); double y=vs[i]->finalPosition; fs+=p.w[i]*(y-p.d[i])*(y-p.d[i]);} for(auto&c:p.cs) mf=std::max(mf,x[c.l]+c.g-x[c.r]); printf("obj oracle=%.9f solver=%.9f oracle maxviol=%g\n",fo,fs,mf); for(int i=0;i<p.n;i++) printf(" oracle x%d=%g\n",i,x[i]);} } else oraclefail++; }
   if(viol){ bad++; if(bad<=5){ printf("VIOL %s inc=%d n=%d m=%zu\n",why,inc,p.n,p.cs.size()); for(int i=0;i<p.n;i++) printf(" v%d d=%g w=%g -> %g\n",i,p.d[i],p.w[i],vs[i]->finalPosition); for(size_t j=0;j<p.cs.size();j++) printf(" c v%d+%g%sv%d %s\n",p.cs[j].l,p.cs[j].g,p.cs[j].eq?"==":"<=",p.cs[j].r,cs[j]->unsatisfiable?"UNSAT":""); } }
   for(auto c:cs) delete c; for(auto v:vs) delete v; }
 }
 printf("seed=%u N=%d mode=%d bad=%d infeas=%d flagged=%d thrown=%d oraclefail=%d\n",seed,N,mode,bad,infeas,flagged,thrown,oraclefail);
}
