#include <cstddef>
#include <cstdlib>
#include <vector>
#include <valarray>
#include "libcola/shortest_paths.h"
#include <random>
#include <cstdio>
#include <cmath>
using namespace shortest_paths;
int main(int argc,char**argv){ unsigned seed=argc>1?atoi(argv[1]):1; int N=argc>2?atoi(argv[2]):1000; int mode=argc>3?atoi(argv[3]):0; std::mt19937 rng(seed);
 auto U=[&](int a,int b){return (int)(rng()%(b-a+1))+a;};
 int badJ=0,badF=0,badD=0; 
 for(int t=0;t<N;t++){ unsigned n=U(1,12); int m=U(0,2*n); std::vector<Edge> es; std::vector<double> ws; for(int j=0;j<m;j++){unsigned a=U(0,n-1),b=U(0,n-1); if(!(mode&1)&&a==b) continue; if(!(mode&2)){bool dup=false; for(auto&e:es) if((e.first==a&&e.second==b)||(e.first==b&&e.second==a)) dup=true; if(dup) continue;} es.push_back({a,b}); ws.push_back(U(mode&4?0:1,40)/8.0);} std::valarray<double> ew(ws.data(),ws.size());
  const double INF=std::numeric_limits<double>::max();
  std::vector<std::vector<double>> R(n,std::vector<double>(n,INF)); for(unsigned i=0;i<n;i++)R[i][i]=0; for(int it=0;it<(int)n;it++) for(size_t e=0;e<es.size();e++){unsigned a=es[e].first,b=es[e].second; for(unsigned s=0;s<n;s++){ if(R[s][a]!=INF&&R[s][a]+ws[e]<R[s][b])R[s][b]=R[s][a]+ws[e]; if(R[s][b]!=INF&&R[s][b]+ws[e]<R[s][a])R[s][a]=R[s][b]+ws[e];}}
  double**D=new double*[n],**F=new double*[n]; for(unsigned i=0;i<n;i++){D[i]=new double[n];F[i]=new double[n];}
  johnsons(n,D,es,ew); floyd_warshall(n,F,es,ew);
  bool bj=false,bf=false; for(unsigned i=0;i<n;i++)for(unsigned j=0;j<n;j++){ auto ne=[&](double a,double b){ if(a==INF||b==INF) return a!=b; return fabs(a-b)>1e-9*std::max(1.0,fabs(b));}; if(ne(D[i][j],R[i][j]))bj=true; if(ne(F[i][j],R[i][j]))bf=true; }
  if(bj){badJ++; if(badJ<3)printf("JOHNSON mismatch n=%u m=%zu\n",n,es.size());} if(bf){badF++; if(badF<3){printf("FLOYD mismatch n=%u m=%zu\n",n,es.size());}}
  std::vector<double> d(n); for(unsigned s=0;s<n;s++){ dijkstra(s,n,d.data(),es,ew); for(unsigned j=0;j<n;j++) if(d[j]!=D[s][j]) badD++; }
  for(unsigned i=0;i<n;i++){delete[]D[i];delete[]F[i];} delete[]D;delete[]F; }
 printf("seed=%u mode=%d johnson_bad=%d floyd_bad=%d dijkstra_vs_johnson=%d\n",seed,mode,badJ,badF,badD);
}
