#include "scene.h"
using namespace Avoid;
int main(int argc,char**argv){ unsigned seed=argc>1?atoi(argv[1]):1; int N=argc>2?atoi(argv[2]):500; int gap=argc>3?atoi(argv[3]):1; std::mt19937 rng(seed);
 int badlen=0,badvalid=0,nontriv=0,total=0,nopath=0;
 for(int t=0;t<N;t++){ Scene sc=genScene(rng,8,20,gap,3); Router*router=new Router(PolyLineRouting); router->setRoutingParameter(segmentPenalty,0); std::vector<ConnRef*> cs; for(auto&r:sc.rs){ Rectangle rr(Point(r.x0,r.y0),Point(r.x1,r.y1)); new ShapeRef(router,rr);} for(auto&c:sc.conns){ ConnRef*cr=new ConnRef(router,ConnEnd(Point(c.first.x,c.first.y)),ConnEnd(Point(c.second.x,c.second.y))); cs.push_back(cr);} router->processTransaction();
  for(size_t i=0;i<cs.size();i++){ total++; const PolyLine&rt=cs[i]->displayRoute(); double L=routeLen(rt); double O=oracleSP(sc.rs,sc.conns[i].first,sc.conns[i].second); if(O<0){nopath++;continue;} if(rt.size()>2) nontriv++;
    bool valid=rt.size()>=2 && rt.ps[0].x==sc.conns[i].first.x&&rt.ps[0].y==sc.conns[i].first.y&&rt.ps[rt.size()-1].x==sc.conns[i].second.x&&rt.ps[rt.size()-1].y==sc.conns[i].second.y; for(size_t k=1;valid&&k<rt.size();k++){ Pt a{(long)rt.ps[k-1].x,(long)rt.ps[k-1].y},b{(long)rt.ps[k].x,(long)rt.ps[k].y}; for(auto&r:sc.rs) if(segHitsOpenRect(a,b,r)) valid=false; }
    if(!valid){badvalid++; if(badvalid<=3){printf("INVALID seed=%u t=%d conn=%zu\n",seed,t,i);} }
    else if(fabs(L-O)>1e-6){badlen++; if(badlen<=5){printf("LEN seed=%u t=%d route=%.9f oracle=%.9f\n  rects:",seed,t,L,O); for(auto&r:sc.rs)printf(" [%ld,%ld,%ld,%ld]",r.x0,r.y0,r.x1,r.y1); printf("\n  conn (%ld,%ld)->(%ld,%ld) route:",sc.conns[i].first.x,sc.conns[i].first.y,sc.conns[i].second.x,sc.conns[i].second.y); for(size_t k=0;k<rt.size();k++)printf(" (%g,%g)",rt.ps[k].x,rt.ps[k].y); printf("\n");} } }
  delete router; }
 printf("seed=%u N=%d gap=%d conns=%d nontrivial=%d nopath=%d invalid=%d lenmismatch=%d\n",seed,N,gap,total,nontriv,nopath,badvalid,badlen);
}
