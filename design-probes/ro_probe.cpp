#include <cstddef>
#include <cstdlib>
#include "libvpsc/rectangle.h"
#include "libvpsc/variable.h"
#include "libvpsc/constraint.h"
#include <random>
#include <cstdio>
#include <cmath>
#include <set>
using namespace vpsc;
int main(int argc,char**argv){ unsigned seed=argc>1?atoi(argv[1]):1; int N=argc>2?atoi(argv[2]):1000; int mode=argc>3?atoi(argv[3]):0; std::mt19937 rng(seed);
 auto U=[&](int a,int b){return (int)(rng()%(b-a+1))+a;};
 int badov=0,badsz=0,badfix=0,badborder=0, nontriv=0; double worstfix=0;
 for(int t=0;t<N;t++){ int n=U(1,mode&4?120:25); Rectangles rs; std::vector<double> w,h,cx,cy; int span=U(5,60); 
  for(int i=0;i<n;i++){ double x=U(0,span*4)/4.0,y=U(0,span*4)/4.0; double ww=(mode&8)&&U(0,3)==0?1e-3: U(1,40)/4.0, hh=(mode&8)&&U(0,3)==0?1e-3:U(1,40)/4.0; if((mode&16)&&i>0&&U(0,2)==0){x=cx[0]-w[0]/2;y=cy[0]-h[0]/2;ww=w[0];hh=h[0];} rs.push_back(new Rectangle(x,x+ww,y,y+hh)); w.push_back(ww);h.push_back(hh);cx.push_back(x+ww/2);cy.push_back(y+hh/2);} 
  std::set<unsigned> fixed; if(mode&1){ // fixed subset pairwise non-overlapping
    for(int i=0;i<n;i++) if(U(0,4)==0){ bool ok=true; for(unsigned f:fixed) if(rs[f]->overlapX(rs[i])>0&&rs[f]->overlapY(rs[i])>0) ok=false; if(ok) fixed.insert(i);} }
  bool anyov=false; for(int i=0;i<n;i++)for(int j=i+1;j<n;j++) if(rs[i]->overlapX(rs[j])>0&&rs[i]->overlapY(rs[j])>0) anyov=true; if(anyov) nontriv++;
  double xb=Rectangle::xBorder,yb=Rectangle::yBorder;
  if(mode&1) removeoverlaps(rs,fixed,(mode&2)!=0); else removeoverlaps(rs);
  if(Rectangle::xBorder!=xb||Rectangle::yBorder!=yb) badborder++;
  double avg=0; for(int i=0;i<n;i++) avg+=(w[i]+h[i])/2; avg/=n;
  bool ov=false; for(int i=0;i<n;i++)for(int j=i+1;j<n;j++){ double ox=std::min(rs[i]->getMaxX(),rs[j]->getMaxX())-std::max(rs[i]->getMinX(),rs[j]->getMinX()); double oy=std::min(rs[i]->getMaxY(),rs[j]->getMaxY())-std::max(rs[i]->getMinY(),rs[j]->getMinY()); if(ox>1e-6&&oy>1e-6) ov=true;}
  if(ov){badov++; if(badov<=3){printf("OVERLAP n=%d seed=%u t=%d\n",n,seed,t);} }
  for(int i=0;i<n;i++){ if(fabs(rs[i]->width()-w[i])>1e-9||fabs(rs[i]->height()-h[i])>1e-9) {badsz++;break;} }
  for(unsigned f:fixed){ double mv=std::max(fabs(rs[f]->getCentreX()-cx[f]),fabs(rs[f]->getCentreY()-cy[f])); if(mv>worstfix) worstfix=mv/avg; if(mv>0.01*avg){badfix++; if(badfix<=3) printf("FIXED moved %g avg=%g n=%d nfixed=%zu t=%d\n",mv,avg,n,fixed.size(),t); break;} }
  for(auto r:rs) delete r; }
 printf("seed=%u N=%d mode=%d nontrivial=%d overlap=%d size=%d fixed=%d border=%d\n",seed,N,mode,nontriv,badov,badsz,badfix,badborder);
}
