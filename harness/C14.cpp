// C14: doHOLA returns a clean orthogonal drawing of the same graph.
#include "common/verif.h"
#include "libdialect/commontypes.h"
#include "libdialect/io.h"
#include "libdialect/util.h"
#include "libdialect/graphs.h"
#include "libdialect/opts.h"
#include "libdialect/hola.h"
#include "libdialect/constraints.h"
#include "libvpsc/rectangle.h"
#include "libvpsc/variable.h"
#include "libvpsc/constraint.h"

using namespace verif;
using namespace dialect;

namespace {
struct GNode { double cx, cy, w, h; };
struct Case {
    std::vector<GNode> nodes;
    std::vector<std::pair<int, int>> edges;
    bool aca = true, nearAlign = true, viaTglf = true;
    int aspect = 1;           // AspectRatioClass
    int growth = 1;           // CardinalDir for tree growth
    double padding = 0.25;
    std::string str() const {
        Writer w;
        w.tok("hola").i(nodes.size()).i(edges.size()).i(aca).i(nearAlign).i(viaTglf).i(aspect).i(growth).d(padding).nl();
        for (auto &n : nodes) w.d(n.cx).d(n.cy).d(n.w).d(n.h).nl();
        for (auto &e : edges) w.i(e.first).i(e.second).nl();
        return w.str();
    }
    static Case parse(Reader &r) {
        Case c; r.expect("hola"); size_t n = r.i(), m = r.i(); c.aca = r.i(); c.nearAlign = r.i(); c.viaTglf = r.i(); c.aspect = r.i(); c.growth = r.i(); c.padding = r.d();
        for (size_t i = 0; i < n; i++) { GNode g; g.cx = r.d(); g.cy = r.d(); g.w = r.d(); g.h = r.d(); c.nodes.push_back(g); }
        for (size_t i = 0; i < m; i++) { int a = r.i(), b = r.i(); c.edges.push_back({a, b}); }
        return c;
    }
};

Verdict eval_hola(const Case &c) {
    Verdict v;
    size_t n = c.nodes.size();
    Graph_SP g;
    std::vector<Node_SP> byIdx(n);
    if (c.viaTglf) {
        std::ostringstream tg;
        for (size_t i = 0; i < n; i++) tg << i << " " << c.nodes[i].cx << " " << c.nodes[i].cy << " " << c.nodes[i].w << " " << c.nodes[i].h << "\n";
        tg << "#\n";
        for (auto &e : c.edges) tg << e.first << " " << e.second << "\n";
        std::istringstream in(tg.str());
        g = buildGraphFromTglf(in);
        for (auto &p : g->getNodeLookup()) byIdx[p.second->getExternalId()] = p.second;
    } else {
        g = std::make_shared<Graph>();
        for (size_t i = 0; i < n; i++) { byIdx[i] = Node::allocate(c.nodes[i].cx, c.nodes[i].cy, c.nodes[i].w, c.nodes[i].h); g->addNode(byIdx[i]); }
        for (auto &e : c.edges) g->addEdge(Edge::allocate(byIdx[e.first], byIdx[e.second]));
    }
    std::map<id_type, int> idx;
    for (size_t i = 0; i < n; i++) idx[byIdx[i]->id()] = (int)i;
    // classes: has a cycle? has a peeled tree (some degree-1 node with a cycle elsewhere)?
    std::vector<int> deg(n, 0);
    for (auto &e : c.edges) { deg[e.first]++; deg[e.second]++; }
    bool leaf = false, hub = false;
    for (int d : deg) { if (d == 1) leaf = true; if (d >= 6) hub = true; }
    bool cyclic = c.edges.size() >= n;
    // Known finding F25 concerns pure trees whose nodes differ a lot in size; its signature is only granted there
    // (largest node dimension at least 3 times the smallest).  Failures on trees of similar-sized nodes are reported.
    double dmin = 1e300, dmax = 0;
    for (auto &nd : c.nodes) { dmin = std::min({dmin, nd.w, nd.h}); dmax = std::max({dmax, nd.w, nd.h}); }
    const bool f25 = !cyclic && dmax >= 3 * dmin;        // for node overlaps
    const bool f25r = !cyclic;                            // for route symptoms (diagonal fallback routes occur in pure trees of any node sizes)
    if (!cyclic && !f25) v.cls("tree-of-similar-sized-nodes");
    v.nontrivial = cyclic && leaf;
    if (cyclic) v.cls("has-cycle"); else v.cls("tree");
    if (hub) v.cls("hub-degree>=6");
    if (n >= 20) v.cls("n>=20");
    if (!c.aca) v.cls("links-by-chains");
    if (!c.viaTglf) v.cls("built-through-API");

    HolaOpts opts;
    opts.useACAforLinks = c.aca;
    opts.do_near_align = c.nearAlign;
    opts.preferredAspectRatio = (AspectRatioClass)c.aspect;
    opts.defaultTreeGrowthDir = (CardinalDir)c.growth;
    opts.preferredTreeGrowthDir = (CardinalDir)c.growth;
    opts.nodePaddingScalar = c.padding;
    doHOLA(*g, opts);

    // same nodes and edges
    if (g->getNumNodes() != n) { v.fail(fmt("graph has %zu nodes after doHOLA, had %zu", (size_t)g->getNumNodes(), n), "node-count"); return v; }
    if (g->getNumEdges() != c.edges.size()) { v.fail(fmt("graph has %zu edges after doHOLA, had %zu", (size_t)g->getNumEdges(), c.edges.size()), "edge-count"); return v; }
    for (auto &p : g->getNodeLookup()) if (!idx.count(p.first)) { v.fail(fmt("node id %u is not one of the input nodes", (unsigned)p.first), "node-set"); return v; }
    std::multiset<std::pair<int, int>> want, got;
    for (auto &e : c.edges) want.insert({std::min(e.first, e.second), std::max(e.first, e.second)});
    for (auto &p : g->getEdgeLookup()) { auto ends = p.second->getEndIds(); if (!idx.count(ends.first) || !idx.count(ends.second)) { v.fail("an edge ends at a node that is not an input node", "edge-set"); return v; } int a = idx[ends.first], b = idx[ends.second]; got.insert({std::min(a, b), std::max(a, b)}); }
    if (want != got) { v.fail("the edge set changed", "edge-set"); return v; }
    // sizes, finite positions, no overlap
    std::vector<BoundingBox> bb(n);
    for (size_t i = 0; i < n; i++) {
        dimensions d = byIdx[i]->getDimensions();
        Avoid::Point ce = byIdx[i]->getCentre();
        if (!std::isfinite(ce.x) || !std::isfinite(ce.y)) { v.fail(fmt("node %zu has a non-finite position", i), "non-finite"); return v; }
        if (std::fabs(d.first - c.nodes[i].w) > 1e-9 || std::fabs(d.second - c.nodes[i].h) > 1e-9) { v.fail(fmt("node %zu: size %.12g x %.12g, was %.12g x %.12g", i, d.first, d.second, c.nodes[i].w, c.nodes[i].h), "size-changed"); return v; }
        bb[i] = byIdx[i]->getBoundingBox();
    }
    for (size_t i = 0; i < n; i++) for (size_t j = i + 1; j < n; j++) {
        double ox = std::min(bb[i].X, bb[j].X) - std::max(bb[i].x, bb[j].x), oy = std::min(bb[i].Y, bb[j].Y) - std::max(bb[i].y, bb[j].y);
        if (ox > 1e-6 && oy > 1e-6) { v.fail(fmt("nodes %zu and %zu overlap by %.6g x %.6g", i, j, ox, oy), (f25 ? "F25-pure-tree-layout" : (cyclic ? "node-overlap" : "tree-node-overlap"))); return v; }
    }
    // routes
    double iel = g->getIEL();
    double pad = c.padding * iel + 1e-6;
    for (auto &p : g->getEdgeLookup()) {
        Edge_SP e = p.second;
        std::vector<Avoid::Point> r = e->getRoute();
        auto ends = e->getEndIds();
        int a = idx[ends.first], b = idx[ends.second];
        if (r.size() < 2) { v.fail(fmt("edge %d-%d has a route of %zu points", a, b, r.size()), (f25r ? "F25-pure-tree-layout" : "no-route")); return v; }
        auto inb = [&](const BoundingBox &q, const Avoid::Point &pt) { return pt.x >= q.x - pad && pt.x <= q.X + pad && pt.y >= q.y - pad && pt.y <= q.Y + pad; };
        bool fwd = inb(bb[a], r.front()) && inb(bb[b], r.back()), rev = inb(bb[b], r.front()) && inb(bb[a], r.back());
        if (!fwd && !rev) { v.fail(fmt("edge %d-%d: route from (%g,%g) to (%g,%g) does not join its end nodes (padding %g)", a, b, r.front().x, r.front().y, r.back().x, r.back().y, pad), (f25r ? "F25-pure-tree-layout" : "route-ends")); return v; }
        for (size_t k = 1; k < r.size(); k++) {
            // HOLA rotates and translates the finished drawing, so 'horizontal' is up to floating-point rounding of those transforms
            double tolAP = 1e-9 * std::max({1.0, std::fabs(r[k].x), std::fabs(r[k].y)});
            if (std::fabs(r[k].x - r[k - 1].x) > tolAP && std::fabs(r[k].y - r[k - 1].y) > tolAP) { v.fail(fmt("edge %d-%d: segment (%.17g,%.17g)-(%.17g,%.17g) is not axis-parallel", a, b, r[k - 1].x, r[k - 1].y, r[k].x, r[k].y), (f25r ? "F25-pure-tree-layout" : "diagonal-segment")); return v; }
            double ax = std::min(r[k].x, r[k - 1].x), bx = std::max(r[k].x, r[k - 1].x), ay = std::min(r[k].y, r[k - 1].y), by = std::max(r[k].y, r[k - 1].y);
            for (size_t u = 0; u < n; u++) {
                if ((int)u == a || (int)u == b) continue;
                if (bx > bb[u].x + 1e-6 && ax < bb[u].X - 1e-6 && by > bb[u].y + 1e-6 && ay < bb[u].Y - 1e-6) { v.fail(fmt("edge %d-%d: segment (%g,%g)-(%g,%g) passes through node %zu", a, b, r[k - 1].x, r[k - 1].y, r[k].x, r[k].y, u), (f25r ? "F25-pure-tree-layout" : "route-through-node")); return v; }
            }
        }
    }
    // the separation constraints returned with the graph hold for the returned positions
    ColaGraphRep &cgr = g->updateColaGraphRep();
    // nodes on cycles or between them (the 2-core of the input graph): HOLA's "core", laid out by the orthogonal pipeline
    std::vector<char> inCore(c.nodes.size(), 1);
    {
        std::vector<int> deg(c.nodes.size(), 0);
        for (auto &e : c.edges) { deg[e.first]++; deg[e.second]++; }
        for (bool again = true; again;) {
            again = false;
            for (size_t i = 0; i < c.nodes.size(); i++) if (inCore[i] && deg[i] <= 1) {
                inCore[i] = 0; again = true;
                for (auto &e : c.edges) if ((e.first == (int)i && inCore[e.second]) || (e.second == (int)i && inCore[e.first])) { deg[e.first]--; deg[e.second]--; }
            }
        }
    }
    std::string genericMsg, invertedMsg;
    for (int d = 0; d < 2; d++) {
        vpsc::Variables vs;
        for (size_t i = 0; i < cgr.rs.size(); i++) vs.push_back(new vpsc::Variable((int)i));
        vpsc::Constraints cs;
        vpsc::Rectangles bbs;
        g->getSepMatrix().generateSeparationConstraints((vpsc::Dim)d, vs, cs, bbs);
        for (auto k : cs) {
            double pl = d == 0 ? cgr.rs[k->left->id]->getCentreX() : cgr.rs[k->left->id]->getCentreY();
            double pr = d == 0 ? cgr.rs[k->right->id]->getCentreX() : cgr.rs[k->right->id]->getCentreY();
            double slack = pr - pl - k->gap;
            if (k->equality ? std::fabs(slack) > 1e-6 : slack < -1e-6) {
                int il = idx[cgr.ix2id.at(k->left->id)], ir = idx[cgr.ix2id.at(k->right->id)];
                std::string m = fmt("returned %c-constraint node %d + %.9g %s node %d is violated by %.9g", d ? 'y' : 'x', il, k->gap, k->equality ? "==" : "<=", ir, k->equality ? std::fabs(slack) : -slack);
                if (genericMsg.empty()) genericMsg = m;
                // a directed separation between two core nodes whose order is the reverse of what the constraint says
                bool inverted = !k->equality && k->gap > 0 && pr < pl - 1e-6 && il >= 0 && ir >= 0 && (size_t)il < inCore.size() && (size_t)ir < inCore.size() && inCore[il] && inCore[ir];
                if (inverted && invertedMsg.empty()) invertedMsg = m + " (two core nodes in the opposite order)";
            }
            delete k;
        }
        if (!cs.empty()) v.cls("returned-constraints");
        for (auto x : vs) delete x;
    }
    if (v.ok && !invertedMsg.empty()) v.fail(invertedMsg, "sepmatrix-core-order-inverted");
    else if (v.ok && !genericMsg.empty()) v.fail(genericMsg, "sepmatrix-violated");
    return v;
}

Case gen_case(bool treesOnly = false) {
    Case c;
    int maxn = tier_thorough() ? 60 : 30;
    int n = treesOnly ? sized(4, maxn) : sized(2, maxn);
    int fam = treesOnly ? 0 : irange(0, 4);        // 0 tree 1 cycle 2 tree + chords 3 dense core with hanging trees 4 hub
    if (getenv("C14_NO_TREES") && (fam == 0 || fam == 4)) fam = irange(1, 3);
    // node sizes: independent 10..100; in the trees-only family all nodes of one size or of two similar sizes
    // (cyclic graphs whose nodes all have nearly the same size are not generated: known finding F49, excluded by construction)
    bool similar = treesOnly;
    double bw = irange(1, 6) * 10, bh = irange(1, 6) * 10;
    for (int i = 0; i < n; i++) {
        double w = (double)irange(1, 10) * 10, h = (double)irange(1, 10) * 10;
        if (similar) { w = bw; h = bh; if (coin(1, 4)) { w = bw + 10; } }
        c.nodes.push_back({(double)irange(0, 400), (double)irange(0, 400), w, h});
    }
    if (coin(1, 8)) for (auto &nd : c.nodes) { nd.cx = 100; nd.cy = 100; }       // coincident start
    std::set<std::pair<int, int>> E;
    auto add = [&](int a, int b) { if (a != b) E.insert({std::min(a, b), std::max(a, b)}); };
    if (fam == 1) { for (int i = 0; i < n; i++) add(i, (i + 1) % n); }
    else if (fam == 4) { for (int i = 1; i < n; i++) add(coin(2, 3) ? 0 : irange(0, i - 1), i); }
    else if (fam == 3) {
        int core = std::max(2, n / 2);
        for (int i = 1; i < core; i++) add(irange(0, i - 1), i);
        for (int k = irange(1, core); k > 0; k--) add(irange(0, core - 1), irange(0, core - 1));
        for (int i = core; i < n; i++) add(irange(0, i - 1), i);
    } else {
        for (int i = 1; i < n; i++) add(irange(0, i - 1), i);
        if (fam == 2) for (int k = irange(1, std::max(1, n / 3)); k > 0; k--) add(irange(0, n - 1), irange(0, n - 1));
    }
    c.edges.assign(E.begin(), E.end());
    c.aca = !coin(1, 3); c.nearAlign = !coin(1, 3); c.viaTglf = coin(1, 2);
    c.aspect = irange(0, 2); c.growth = irange(0, 3);
    c.padding = pick(std::vector<double>{0.25, 0.25, 0.1, 0.2});   // padding above the tree node separation (0.25 IEL) makes padded tree nodes overlap: a configuration conflict, not generated
    return c;
}
} // namespace

int main(int argc, char **argv) {
    std::vector<Prop> props;
    props.push_back({"C14.hola", 1.0,
        [] { Case c = gen_case(); return record("C14.hola", c.str(), [&] { return eval_hola(c); }); },
        [](Reader &r) { return eval_hola(Case::parse(r)); }, nullptr});
    // pure trees of similar-sized nodes: the branch of doHOLA where the symmetric tree layout is final
    props.push_back({"C14.trees", 2.0,
        [] { Case c = gen_case(true); return record("C14.trees", c.str(), [&] { return eval_hola(c); }); },
        [](Reader &r) { return eval_hola(Case::parse(r)); }, nullptr});
    return run_main(argc, argv, props);
}
