/* libcola/config.h.  Generated from config.h.in by configure.  */
/* libcola/config.h.in.  Generated from configure.ac by autoheader.  */

/* Enable CairoMM code */
/* #undef HAVE_CAIROMM */

/* Define to 1 if you have the <dlfcn.h> header file. */
#define HAVE_DLFCN_H 1

/* Define to 1 if you have the <inttypes.h> header file. */
#define HAVE_INTTYPES_H 1

/* Define to 1 if you have the <stdint.h> header file. */
#define HAVE_STDINT_H 1

/* Define to 1 if you have the <stdio.h> header file. */
#define HAVE_STDIO_H 1

/* Define to 1 if you have the <stdlib.h> header file. */
#define HAVE_STDLIB_H 1

/* Define to 1 if you have the <strings.h> header file. */
#define HAVE_STRINGS_H 1

/* Define to 1 if you have the <string.h> header file. */
#define HAVE_STRING_H 1

/* Define to 1 if you have the <sys/stat.h> header file. */
#define HAVE_SYS_STAT_H 1

/* Define to 1 if you have the <sys/types.h> header file. */
#define HAVE_SYS_TYPES_H 1

/* Define to 1 if you have the <unistd.h> header file. */
#define HAVE_UNISTD_H 1

/* Define to the sub-directory where libtool stores uninstalled libraries. */
#define LT_OBJDIR ".libs/"

/* Name of package */
#define PACKAGE "libcola"

/* Define to the address where bug reports for this package should be sent. */
#define PACKAGE_BUGREPORT ""

/* Define to the full name of this package. */
#define PACKAGE_NAME "libcola"

/* Define to the full name and version of this package. */
#define PACKAGE_STRING "libcola 0.1"

/* Define to the one symbol short name of this package. */
#define PACKAGE_TARNAME "libcola"

/* Define to the home page for this package. */
#define PACKAGE_URL ""

/* Define to the version of this package. */
#define PACKAGE_VERSION "0.1"

/* Define to 1 if all of the C90 standard headers exist (not just the ones
   required in a freestanding environment). This macro is provided for
   backward compatibility; new code need not use it. */
#define STDC_HEADERS 1

/* Version number of package */
#define VERSION "0.1"

 
  

