// C10: orthogonal nudging separates shared paths without moving endpoints, adding
// segments or moving checkpoints off their routes.
#include "common/scene.h"

using namespace verif;
using namespace sc;

namespace {
std::string sceneStr(const Scene &s) { Writer w; s.put(w); return w.str(); }

struct Seg { int conn; int idx; int n; bool vert; double pos, lo, hi; double nlo = -1e300, nhi = 1e300;   // nlo/nhi: far ends of the two adjacent segments
             int legSide[2] = {0, 0}; double legAt[2] = {0, 0};   // adjacent legs: which side they leave to, and where (along the segment)
             bool interior() const { return idx > 0 && idx < n - 1; } };
std::vector<P> dedupe(const std::vector<P> &r) { std::vector<P> p; for (auto &q : r) if (p.empty() || !(p.back() == q)) p.push_back(q); return p; }
// merge collinear consecutive points (what PolyLine::simplify does)
std::vector<P> simplify(const std::vector<P> &r0) {
    std::vector<P> r = dedupe(r0), out;
    for (size_t i = 0; i < r.size(); i++) {
        if (i > 0 && i + 1 < r.size()) {
            bool colx = r[i - 1].x == r[i].x && r[i].x == r[i + 1].x, coly = r[i - 1].y == r[i].y && r[i].y == r[i + 1].y;
            if (colx || coly) continue;
        }
        out.push_back(r[i]);
    }
    return out;
}
std::vector<Seg> segsOf(const std::vector<P> &r, int conn) {
    std::vector<Seg> v;
    int n = (int)r.size() - 1;
    for (int i = 0; i < n; i++) {
        bool vert = r[i].x == r[i + 1].x;
        Seg s{conn, i, n, vert, vert ? r[i].x : r[i].y, 0, 0};
        s.lo = vert ? std::min(r[i].y, r[i + 1].y) : std::min(r[i].x, r[i + 1].x);
        s.hi = vert ? std::max(r[i].y, r[i + 1].y) : std::max(r[i].x, r[i + 1].x);
        // a segment cannot be shifted past the far end of a neighbouring (perpendicular) segment
        int e = 0;
        for (int nb : {i - 1, i + 2}) {
            int at = nb < i ? i : i + 1;
            if (nb >= 0 && nb <= n) {
                double q = vert ? r[nb].x : r[nb].y;
                if (q < s.pos) s.nlo = std::max(s.nlo, q); else if (q > s.pos) s.nhi = std::min(s.nhi, q);
                s.legSide[e] = q < s.pos ? -1 : (q > s.pos ? 1 : 0);
            }
            s.legAt[e] = vert ? r[at].y : r[at].x;
            e++;
        }
        v.push_back(s);
    }
    return v;
}
bool onRoute(const P &p, const std::vector<P> &r, double tol) { for (size_t i = 1; i < r.size(); i++) if (ptSegDist(p, r[i - 1], r[i]) <= tol) return true; return false; }

// free range [lo,hi] in which a segment could be shifted sideways without entering a (buffered) shape
void channel(const Seg &s, const std::vector<Box> &boxes, double &lo, double &hi) {
    lo = s.nlo; hi = s.nhi;
    for (auto &b : boxes) {
        double a0 = s.vert ? b.y0 : b.x0, a1 = s.vert ? b.y1 : b.x1, p0 = s.vert ? b.x0 : b.y0, p1 = s.vert ? b.x1 : b.y1;
        if (a1 <= s.lo || a0 >= s.hi) continue;          // does not overlap the segment's extent
        if (p1 <= s.pos + 1e-9) lo = std::max(lo, p1);
        else if (p0 >= s.pos - 1e-9) hi = std::min(hi, p0);
        else { lo = std::max(lo, s.pos); hi = std::min(hi, s.pos); }   // segment inside a box: no room
    }
}

Verdict eval_c10(const Scene &s) {
    Verdict v;
    Built b;
    build(s, b);
    try { b.router->processTransaction(); } catch (...) { b.abandon(); throw; }
    double d = s.cfg.p(Avoid::idealNudgingDistance), buf = s.cfg.p(Avoid::shapeBufferDistance);
    bool endsMayMove = s.cfg.opt[Avoid::nudgeOrthogonalSegmentsConnectedToShapes];
    std::vector<Box> boxes;
    for (auto &p : s.shapes) { Box bb = bbox(p); boxes.push_back({bb.x0 - buf, bb.y0 - buf, bb.x1 + buf, bb.y1 + buf}); }
    size_t n = s.conns.size();
    std::vector<std::vector<P>> raw(n), disp(n);
    std::vector<std::vector<Seg>> rs(n), ds(n);
    for (size_t i = 0; i < n; i++) {
        Avoid::PolyLine simp = b.conns[i]->route().simplify();
        raw[i] = dedupe(toPts(simp));
        disp[i] = dedupe(toPts(b.conns[i]->displayRoute()));
        bool orth = true;
        for (size_t k = 1; k < disp[i].size(); k++) if (disp[i][k].x != disp[i][k - 1].x && disp[i][k].y != disp[i][k - 1].y) orth = false;
        for (size_t k = 1; k < raw[i].size(); k++) if (raw[i][k].x != raw[i][k - 1].x && raw[i][k].y != raw[i][k - 1].y) orth = false;
        if (!orth) { v.cls("non-orthogonal-fallback(unjudged)"); return v; }
        rs[i] = segsOf(raw[i], (int)i); ds[i] = segsOf(simplify(disp[i]), (int)i);
    }
    if (endsMayMove) v.cls("option:nudge-end-segments");
    if (!s.cfg.opt[Avoid::performUnifyingNudgingPreprocessingStep]) v.cls("option:no-unifying-step");
    // shared stretch in the raw routes => nudging has work to do
    bool shared = false;
    for (size_t i = 0; i < n && !shared; i++) for (size_t j = i + 1; j < n && !shared; j++) for (auto &x : rs[i]) for (auto &y : rs[j])
        if (x.vert == y.vert && x.pos == y.pos && std::min(x.hi, y.hi) - std::max(x.lo, y.lo) > 1e-9) shared = true;
    v.nontrivial = shared;
    for (size_t i = 0; i < n && v.ok; i++) {
        const Conn &c = s.conns[i];
        if (disp[i].size() < 2) { v.fail(fmt("connector %zu: displayRoute has %zu points", i, disp[i].size()), "short-route"); break; }
        // (a) first / last point never move
        if (!endsMayMove && (!(disp[i].front() == raw[i].front()) || !(disp[i].back() == raw[i].back())))
            v.fail(fmt("connector %zu: nudging moved an end point: raw %s -> displayed %s", i, ptsStr(raw[i]).c_str(), ptsStr(disp[i]).c_str()), "endpoint-moved");
        // (b) never adds segments
        if (simplify(disp[i]).size() > raw[i].size())
            v.fail(fmt("connector %zu: nudging added segments: raw %s (%zu points) -> displayed %s (%zu points)", i, ptsStr(raw[i]).c_str(), raw[i].size(), ptsStr(simplify(disp[i])).c_str(), simplify(disp[i]).size()), "segments-added");
        // (c) checkpoints stay on the route
        // (nudgeOrthogonalSegmentsConnectedToShapes is documented to nudge apart routes running through the same checkpoint)
        if (!endsMayMove) for (auto &cp : c.checkpoints) if (!onRoute(cp, disp[i], 1e-6)) { v.fail(fmt("connector %zu: checkpoint (%g,%g) is not on the displayed route %s (raw route %s)", i, cp.x, cp.y, ptsStr(disp[i]).c_str(), ptsStr(raw[i]).c_str()), onRoute(cp, raw[i], 1e-6) ? "checkpoint-off-route" : "checkpoint-not-on-raw-route"); }
        if (!c.checkpoints.empty()) v.cls("has-checkpoints");
        // (f) still valid
        std::string bad = routeInvalid(disp[i], c.a, c.b, s.shapes, 1e-7, nullptr, endsMayMove);
        if (!bad.empty()) v.fail(fmt("connector %zu: %s; displayed route %s", i, bad.c_str(), ptsStr(disp[i]).c_str()), "invalid-route");
    }
    // (d) no two connectors without a common endpoint run collinear and overlapping in a wide-enough channel.
    //     Judged on scenes without checkpoints: a checkpoint pins its segment, and what the library then does with
    //     the other segments of that corridor is not something the property (or the documentation) pins down.
    bool anyCp = false;
    for (auto &c : s.conns) if (!c.checkpoints.empty()) anyCp = true;
    if (anyCp) { v.cls("scene-with-checkpoints(collinearity unjudged)"); return v; }
    std::vector<Seg> all;
    for (auto &x : ds) all.insert(all.end(), x.begin(), x.end());
    for (size_t i = 0; i < n && v.ok; i++) for (size_t j = i + 1; j < n && v.ok; j++) {
        const Conn &A = s.conns[i], &B = s.conns[j];
        if (A.a == B.a || A.a == B.b || A.b == B.a || A.b == B.b) continue;
        // connectors sharing a checkpoint are documented to be separated only with the end-segment option
        bool sharedCp = false;
        for (auto &p : A.checkpoints) for (auto &q : B.checkpoints) if (p == q) sharedCp = true;
        if (sharedCp) continue;
        for (auto &x : ds[i]) for (auto &y : ds[j]) {
            if (!v.ok) break;
            if (x.vert != y.vert || !x.interior() || !y.interior()) continue;
            double ov = std::min(x.hi, y.hi) - std::max(x.lo, y.lo);
            if (ov <= 1e-9) continue;
            double gap = std::fabs(x.pos - y.pos);
            if (gap > 1e-9) continue;
            // collinear and overlapping: is there room?
            double lo1, hi1, lo2, hi2;
            channel(x, boxes, lo1, hi1); channel(y, boxes, lo2, hi2);
            double lo = std::max(lo1, lo2), hi = std::min(hi1, hi2);
            int k = 0;
            for (auto &z : all) if (z.vert == x.vert && z.pos >= lo - 1e-9 && z.pos <= hi + 1e-9 && std::min(z.hi, std::max(x.hi, y.hi)) - std::max(z.lo, std::min(x.lo, y.lo)) > -1e-9) k++;
            // segments through a checkpoint are pinned to it
            bool pinned = false;
            for (const Conn *cc : {&A, &B}) for (auto &cp : cc->checkpoints) { double cpPos = x.vert ? cp.x : cp.y, cpAlong = x.vert ? cp.y : cp.x; if (std::fabs(cpPos - x.pos) < 1e-9 && cpAlong >= std::min(x.lo, y.lo) - 1e-9 && cpAlong <= std::max(x.hi, y.hi) + 1e-9) pinned = true; }
            if (pinned) { v.cls("collinear-at-checkpoint(unjudged)"); continue; }
            // Is there an order of the two segments that separates them without making the connectors cross?  (When
            // every order needs a crossing the library leaves the order - and sometimes the overlap - as it is.)
            auto crossings = [&](const Seg &up, const Seg &dn) {      // `up` placed on the + side of `dn`
                int c = 0;
                for (int e = 0; e < 2; e++) {
                    if (up.legSide[e] < 0 && up.legAt[e] > dn.lo + 1e-9 && up.legAt[e] < dn.hi - 1e-9) c++;
                    if (dn.legSide[e] > 0 && dn.legAt[e] > up.lo + 1e-9 && dn.legAt[e] < up.hi - 1e-9) c++;
                }
                return c;
            };
            if (std::min(crossings(x, y), crossings(y, x)) > 0) { v.cls("separation-needs-a-crossing(unjudged)"); continue; }
            // nudgeOrthogonalSegmentsConnectedToShapes is documented to interact with nudgeSharedPathsWithCommonEndPoint=false
            if (endsMayMove && !s.cfg.opt[Avoid::nudgeSharedPathsWithCommonEndPoint]) { v.cls("end-nudging-with-shared-path-option-off(unjudged)"); continue; }
            if (hi - lo >= (k + 1) * d) {
                // known finding F13: the unchanged library occasionally leaves such segments collinear (see known_findings.json)
                bool f13 = true;
                v.fail(fmt("connectors %zu and %zu run collinear at %s=%.9g over a stretch of length %.6g although the channel [%.6g,%.6g] holds only %d parallel segments at nudging distance %g; routes %s / %s",
                           i, j, x.vert ? "x" : "y", x.pos, ov, lo, hi, k, d, ptsStr(disp[i]).c_str(), ptsStr(disp[j]).c_str()), f13 ? "F13-collinear-overlap" : "collinear-overlap");
            } else v.cls("narrow-channel(unjudged)");
        }
    }
    return v;
}

// ---------------------------------------------------------------- generator: scenes with shared corridors
Scene gen_case(bool withCheckpoints) {
    Scene s;
    s.cfg.flags = 2;
    s.cfg.param[Avoid::segmentPenalty] = pick(std::vector<double>{10, 20, 50});
    double d = pick(std::vector<double>{0.5, 1, 2, 4, 8});
    s.cfg.param[Avoid::idealNudgingDistance] = d;
    s.cfg.param[Avoid::shapeBufferDistance] = pick(std::vector<double>{0, 0, 1});
    for (int k : {(int)Avoid::nudgeOrthogonalSegmentsConnectedToShapes, (int)Avoid::nudgeOrthogonalTouchingColinearSegments, (int)Avoid::performUnifyingNudgingPreprocessingStep, (int)Avoid::nudgeSharedPathsWithCommonEndPoint})
        if (coin(1, 4)) s.cfg.opt[k] = !s.cfg.opt[k];
    bool transpose = coin(1, 2);
    // family B (1 in 4): a very narrow corridor crowded with connectors next to a wide one, large nudging distance
    // (the narrow region cannot be satisfied even at a tenth of the distance; the wide one must still be nudged properly)
    bool crowded = !withCheckpoints && coin(1, 4);
    if (crowded) { d = pick(std::vector<double>{10, 25}); s.cfg.param[Avoid::idealNudgingDistance] = d; s.cfg.param[Avoid::shapeBufferDistance] = 0; }
    // a wall of blocks with gaps (corridors) between them
    int blocks = crowded ? 3 : irange(2, 4), x = 0, H = irange(6, 30);
    std::vector<std::pair<int, int>> gaps;
    int narrowAt = irange(0, 1);
    for (int i = 0; i < blocks; i++) {
        int w = irange(6, 24);
        s.shapes.push_back(rectPoly(x, 0, x + w, H));
        x += w;
        if (i + 1 < blocks) { int W = crowded ? (i == narrowAt ? 2 : irange(80, 120)) : irange(3, 40); gaps.push_back({x, x + W}); x += W; }
    }
    int total = x;
    // a few loose rectangles away from the wall
    int extra = irange(0, 3);
    for (int i = 0; i < extra; i++) {
        int w = irange(2, 10), h = irange(2, 8), x0 = irange(0, total), y0 = coin(1, 2) ? -irange(30, 40) - h : H + irange(30, 40);
        Poly p = rectPoly(x0, y0, x0 + w, y0 + h);
        bool ok = true;
        for (auto &o : s.shapes) if (!boxesApart(bbox(p), bbox(o), 3)) ok = false;
        if (ok) s.shapes.push_back(p);
    }
    // Endpoints in general position: pairwise distinct x and y coordinates, none on a shape-edge line.  (Lattice
    // coincidences -- an endpoint lying on another connector's end segment -- make "which segments are free to move"
    // ambiguous; the property is about corridors, not about those coincidences.)
    std::set<int> usedX, usedY;
    for (auto &p : s.shapes) { Box bb = bbox(p); usedX.insert((int)bb.x0); usedX.insert((int)bb.x1); usedY.insert((int)bb.y0); usedY.insert((int)bb.y1); }
    auto fresh = [&](std::set<int> &used, int lo, int hi, int &out) { for (int t = 0; t < 30; t++) { int v = irange(lo, hi); if (!used.count(v)) { used.insert(v); out = v; return true; } } return false; };
    std::vector<Conn> through;       // family B: connectors straight through the narrow corridor, half a unit apart
    if (crowded) {
        int k = irange(2, 3);
        for (int j = 1; j <= k; j++) {
            Conn c; c.type = 2;
            int ay, by;
            if (!fresh(usedY, -26, -3, ay) || !fresh(usedY, H + 3, H + 26, by)) continue;
            c.a = {gaps[narrowAt].first + 0.5 * j, (double)ay}; c.b = {gaps[narrowAt].first + 0.5 * j, (double)by};
            through.push_back(c);
        }
    }
    int nc = crowded ? irange(2, 4) : irange(2, 8);
    for (int i = 0; i < nc; i++) {
        Conn c; c.type = 2;
        int ax, ay, bx, by;
        bool sameSide = coin(1, 6);
        // mostly above / below a block, so that the route has to travel to a gap and hug a corridor wall
        auto overBlock = [&](int &out) {
            if (coin(1, 5)) return fresh(usedX, -8, total + 8, out);
            Box bb = bbox(s.shapes[irange(0, blocks - 1)]);
            return fresh(usedX, (int)bb.x0 + 1, (int)bb.x1 - 1, out) || fresh(usedX, -8, total + 8, out);
        };
        if (!overBlock(ax) || !overBlock(bx)) continue;
        if (!fresh(usedY, -26, -3, ay)) continue;
        if (sameSide ? !fresh(usedY, -26, -3, by) : !fresh(usedY, H + 3, H + 26, by)) continue;
        c.a = {(double)ax, (double)ay}; c.b = {(double)bx, (double)by};
        bool ok = true;
        for (auto &p : s.shapes) { Box bb = bbox(p); for (const P *e : {&c.a, &c.b}) if (e->x > bb.x0 - 2 && e->x < bb.x1 + 2 && e->y > bb.y0 - 2 && e->y < bb.y1 + 2) ok = false; }
        if (!ok) continue;
        if (withCheckpoints && coin(1, 3) && !gaps.empty()) {      // a checkpoint inside a corridor
            auto g = pick(gaps);      // strictly inside the (buffered) corridor
            if (g.second - g.first >= 5) c.checkpoints.push_back({(double)irange(g.first + 2, g.second - 2), (double)irange(1, H - 1)});
        }
        s.conns.push_back(c);
    }
    for (auto &c : through) s.conns.insert(s.conns.begin() + irange(0, (int)s.conns.size()), c);
    if (transpose) {
        for (auto &p : s.shapes) { Box bb = bbox(p); p = rectPoly(bb.y0, bb.x0, bb.y1, bb.x1); }
        for (auto &c : s.conns) { std::swap(c.a.x, c.a.y); std::swap(c.b.x, c.b.y); for (auto &q : c.checkpoints) std::swap(q.x, q.y); }
    }
    return s;
}
} // namespace

int main(int argc, char **argv) {
    std::vector<Prop> props;
    props.push_back({"C10.nudge", 1.0,
        [] { Scene s = gen_case(false); RC_PRE(s.conns.size() >= 2); return record("C10.nudge", sceneStr(s), [&] { return eval_c10(s); }); },
        [](Reader &r) { return eval_c10(Scene::get(r)); }, nullptr});
    props.push_back({"C10.checkpoints", 0.3,
        [] { Scene s = gen_case(true); RC_PRE(s.conns.size() >= 2); return record("C10.checkpoints", sceneStr(s), [&] { return eval_c10(s); }); },
        [](Reader &r) { return eval_c10(Scene::get(r)); }, nullptr});
    return run_main(argc, argv, props);
}
