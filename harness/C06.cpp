// C06: incremental transactions (add / move / resize / delete shapes, move endpoints,
// add / delete connectors) give what a freshly constructed router gives for the same
// final scene; an empty transaction changes nothing.
#include "common/scene.h"

using namespace verif;
using namespace sc;

namespace {
enum { ADD_SHAPE, MOVE_ABS, MOVE_REL, DEL_SHAPE, MOVE_END, ADD_CONN, DEL_CONN, PROCESS };
struct Op { int kind; int idx = 0; int which = 0; Poly poly; double dx = 0, dy = 0; Conn conn; };
struct Case {
    Scene s;                    // initial scene (routed in the first transaction)
    bool useTransactions = true;
    std::vector<Op> ops;
    std::string str() const {
        Writer w;
        s.put(w);
        w.tok("transactions").i(useTransactions).nl().tok("ops").i(ops.size()).nl();
        for (auto &o : ops) {
            w.i(o.kind).i(o.idx).i(o.which).d(o.dx).d(o.dy).i(o.poly.size());
            for (auto &p : o.poly) w.d(p.x).d(p.y);
            w.i(o.conn.type).d(o.conn.a.x).d(o.conn.a.y).d(o.conn.b.x).d(o.conn.b.y).nl();
        }
        return w.str();
    }
    static Case parse(Reader &r) {
        Case c;
        c.s = Scene::get(r);
        r.expect("transactions"); c.useTransactions = r.i();
        r.expect("ops"); size_t n = r.i();
        for (size_t i = 0; i < n; i++) {
            Op o; o.kind = r.i(); o.idx = r.i(); o.which = r.i(); o.dx = r.d(); o.dy = r.d();
            size_t k = r.i(); for (size_t j = 0; j < k; j++) { double x = r.d(), y = r.d(); o.poly.push_back({x, y}); }
            o.conn.type = r.i(); o.conn.a.x = r.d(); o.conn.a.y = r.d(); o.conn.b.x = r.d(); o.conn.b.y = r.d();
            c.ops.push_back(o);
        }
        return c;
    }
};

// The model of the scene: what a fresh router is given.
struct Model {
    Cfg cfg;
    std::vector<Poly> shapes; std::vector<char> shapeAlive, shapeNew;    // shapeNew: added in the open transaction
    std::vector<Conn> conns; std::vector<char> connAlive;
    Scene scene(std::vector<int> *connIdx = nullptr) const {
        Scene s; s.cfg = cfg;
        for (size_t i = 0; i < shapes.size(); i++) if (shapeAlive[i]) s.shapes.push_back(shapes[i]);
        for (size_t i = 0; i < conns.size(); i++) if (connAlive[i]) { s.conns.push_back(conns[i]); if (connIdx) connIdx->push_back((int)i); }
        return s;
    }
};
Poly shifted(const Poly &p, double dx, double dy) { Poly q = p; for (auto &v : q) { v.x += dx; v.y += dy; } return q; }
bool shapeFits(const Model &m, const Poly &p, int self) {      // >= 1 apart from other live shapes and from every endpoint
    Box b = bbox(p);
    if (b.x1 <= b.x0 || b.y1 <= b.y0) return false;
    for (size_t i = 0; i < m.shapes.size(); i++) if (m.shapeAlive[i] && (int)i != self && !boxesApart(b, bbox(m.shapes[i]), 1)) return false;
    for (size_t i = 0; i < m.conns.size(); i++) if (m.connAlive[i]) for (const P *e : {&m.conns[i].a, &m.conns[i].b})
        if (e->x > b.x0 - 1 && e->x < b.x1 + 1 && e->y > b.y0 - 1 && e->y < b.y1 + 1) return false;
    return true;
}
bool pointFits(const Model &m, const P &e) {
    for (size_t i = 0; i < m.shapes.size(); i++) if (m.shapeAlive[i]) { Box b = bbox(m.shapes[i]); if (e.x > b.x0 - 1 && e.x < b.x1 + 1 && e.y > b.y0 - 1 && e.y < b.y1 + 1) return false; }
    return true;
}

double routeCostOf(const Cfg &cfg, const Conn &c, const Avoid::ConnRef *cr) {
    double pen = cfg.p(Avoid::segmentPenalty);
    return c.type == 2 ? orthCost(toPts(cr->route()), pen) : polyCost(toPts(const_cast<Avoid::ConnRef *>(cr)->displayRoute()), pen);
}

Verdict eval_history(const Case &c) {
    Verdict v;
    Model m;
    m.cfg = c.s.cfg;
    Built b;
    b.router = new Avoid::Router(c.s.cfg.flags);
    configure(b.router, c.s.cfg);
    b.router->setTransactionUse(c.useTransactions);
    std::vector<Avoid::ShapeRef *> sh;
    std::vector<Avoid::ConnRef *> cn;
    std::vector<std::vector<P>> lastRoute;      // per connector handle, displayRoute at the last boundary
    bool relevantChange = false;
    int transactions = 0, removals = 0, ontoRoute = 0;
    auto addShapeBoth = [&](const Poly &p) { m.shapes.push_back(p); m.shapeAlive.push_back(1); m.shapeNew.push_back(1); sh.push_back(addShape(b.router, p)); };
    auto addConnBoth = [&](const Conn &k) { m.conns.push_back(k); m.connAlive.push_back(1); cn.push_back(addConn(b.router, k)); lastRoute.push_back({}); };
    auto bentAround = [&](const Poly &p) {       // some current route touches a corner of p
        for (size_t i = 0; i < cn.size(); i++) if (m.connAlive[i]) for (auto &q : lastRoute[i]) for (auto &corner : p) if (q == corner) return true;
        return false;
    };
    auto crossesRoute = [&](const Poly &p) {
        for (size_t i = 0; i < cn.size(); i++) if (m.connAlive[i]) for (size_t k = 1; k < lastRoute[i].size(); k++) if (segEntersConvex(lastRoute[i][k - 1], lastRoute[i][k], p, 1e-9)) return true;
        return false;
    };
    try {
        for (auto &p : c.s.shapes) addShapeBoth(p);
        for (auto &k : c.s.conns) addConnBoth(k);
        std::vector<Op> ops = c.ops;
        ops.insert(ops.begin(), Op{PROCESS});
        ops.push_back(Op{PROCESS});
        for (size_t oi = 0; oi < ops.size() && v.ok; oi++) {
            const Op &o = ops[oi];
            bool boundary = !c.useTransactions || o.kind == PROCESS;
            switch (o.kind) {
                case ADD_SHAPE: if (crossesRoute(o.poly)) { relevantChange = true; ontoRoute++; } addShapeBoth(o.poly); break;
                case MOVE_ABS: case MOVE_REL: {
                    Poly np = o.kind == MOVE_ABS ? o.poly : shifted(m.shapes[o.idx], o.dx, o.dy);
                    if (bentAround(m.shapes[o.idx])) { relevantChange = true; removals++; }
                    if (crossesRoute(np)) { relevantChange = true; ontoRoute++; }
                    if (o.kind == MOVE_ABS) { Avoid::Polygon poly = toPolygon(np); b.router->moveShape(sh[o.idx], poly); }
                    else b.router->moveShape(sh[o.idx], o.dx, o.dy);
                    m.shapes[o.idx] = np;
                    break;
                }
                case DEL_SHAPE:
                    if (bentAround(m.shapes[o.idx])) { relevantChange = true; removals++; }
                    b.router->deleteShape(sh[o.idx]); sh[o.idx] = nullptr; m.shapeAlive[o.idx] = 0;
                    break;
                case MOVE_END: {
                    Avoid::ConnEnd e(Avoid::Point(o.dx, o.dy));
                    if (o.which == 0) { cn[o.idx]->setSourceEndpoint(e); m.conns[o.idx].a = {o.dx, o.dy}; }
                    else { cn[o.idx]->setDestEndpoint(e); m.conns[o.idx].b = {o.dx, o.dy}; }
                    break;
                }
                case ADD_CONN: addConnBoth(o.conn); break;
                case DEL_CONN: b.router->deleteConnector(cn[o.idx]); cn[o.idx] = nullptr; m.connAlive[o.idx] = 0; break;
                case PROCESS: b.router->processTransaction(); break;
            }
            if (!boundary) continue;
            transactions++;
            for (auto &f : m.shapeNew) f = 0;
            // ---- oracle at a transaction boundary
            std::vector<int> idx;
            Scene now = m.scene(&idx);
            Built fresh;
            build(now, fresh);
            try { fresh.router->processTransaction(); } catch (...) { fresh.abandon(); throw; }
            for (size_t k = 0; k < idx.size() && v.ok; k++) {
                int h = idx[k];
                const Conn &cc = m.conns[h];
                std::vector<P> disp = toPts(cn[h]->displayRoute()), raw = toPts(cn[h]->route());
                std::string bad = routeInvalid(disp, cc.a, cc.b, now.shapes, 1e-7);
                if (bad.empty()) bad = routeInvalid(raw, cc.a, cc.b, now.shapes, 1e-7);
                if (!bad.empty()) { v.fail(fmt("after transaction %d (op #%zu): connector %d: %s; route %s", transactions, oi, h, bad.c_str(), ptsStr(disp).c_str()), bad.find("[through two of its vertices]") != std::string::npos ? "F26-sight-line-through-two-vertices" : "invalid-after-transaction"); break; }
                double ci = routeCostOf(m.cfg, cc, cn[h]), cf = routeCostOf(m.cfg, cc, fresh.conns[k]);
                if (std::fabs(ci - cf) > 1e-6)
                    v.fail(fmt("after transaction %d (op #%zu): connector %d costs %.9f incrementally but %.9f in a fresh router on the same scene; incremental route %s, fresh route %s", transactions, oi, h, ci, cf,
                               ptsStr(disp).c_str(), ptsStr(toPts(fresh.conns[k]->displayRoute())).c_str()), ci > cf ? "incremental-costlier" : "incremental-cheaper");
                lastRoute[h] = disp;
            }
            if (!v.ok) break;
            // ---- a transaction that changes nothing
            std::vector<std::vector<P>> before;
            for (int h : idx) { before.push_back(toPts(cn[h]->displayRoute())); before.push_back(toPts(cn[h]->route())); }
            bool changed = b.router->processTransaction();
            if (changed) v.fail(fmt("after transaction %d: processTransaction() with nothing queued returned true", transactions), "empty-transaction-true");
            size_t q = 0;
            for (int h : idx) {
                if (!(toPts(cn[h]->displayRoute()) == before[q]) || !(toPts(cn[h]->route()) == before[q + 1])) v.fail(fmt("after transaction %d: an empty transaction changed the route of connector %d", transactions, h), "empty-transaction-changed");
                q += 2;
            }
        }
    } catch (...) { b.abandon(); throw; }
    v.nontrivial = relevantChange && transactions >= 2;
    if (removals) v.cls("shape-moved-away-or-deleted-from-route");
    if (ontoRoute) v.cls("shape-added-or-moved-onto-route");
    v.cls(c.s.cfg.flags == 2 ? "orthogonal" : "polyline");
    if (!c.useTransactions) v.cls("transactions-off");
    if (transactions >= 4) v.cls("transactions>=4");
    return v;
}

// ---------------------------------------------------------------- generator (keeps a model while drawing operations)
Case gen_case() {
    Case c;
    bool orth = coin(1, 3);
    c.s.cfg.flags = orth ? 2 : 1;
    for (double &p : c.s.cfg.param) p = 0;
    // polyline: penalty 0 only.  With a bend penalty an *added* shape can offer a cheaper route through its corners,
    // and the library does not reroute connectors the new shape does not block (known finding F15).
    c.s.cfg.param[Avoid::segmentPenalty] = orth ? pick(std::vector<double>{10, 1, 50}) : 0;
    c.s.cfg.param[Avoid::idealNudgingDistance] = 1;
    c.useTransactions = !coin(1, 5);
    int span = irange(10, 40);
    genShapes(c.s, 7, span, 1, orth ? 0 : 30, false);
    Model m;
    m.cfg = c.s.cfg;
    for (auto &p : c.s.shapes) { m.shapes.push_back(p); m.shapeAlive.push_back(1); m.shapeNew.push_back(0); }
    int nc = irange(1, 4);
    for (int i = 0; i < nc; i++) {
        Conn k; k.type = orth ? 2 : 1;
        if (!genFreePoint(c.s, span, 1, k.a) || !genFreePoint(c.s, span, 1, k.b) || k.a == k.b) continue;
        c.s.conns.push_back(k); m.conns.push_back(k); m.connAlive.push_back(1);
    }
    auto liveShape = [&](bool notNew) { std::vector<int> v; for (size_t i = 0; i < m.shapes.size(); i++) if (m.shapeAlive[i] && !(notNew && m.shapeNew[i])) v.push_back((int)i); return v; };
    auto liveConn = [&] { std::vector<int> v; for (size_t i = 0; i < m.conns.size(); i++) if (m.connAlive[i]) v.push_back((int)i); return v; };
    int nops = sized(2, 14);
    for (int i = 0; i < nops; i++) {
        int t = irange(0, 11);
        Op o;
        if (t <= 1) {            // add shape
            int w = irange(1, span / 2 + 1), h = irange(1, span / 2 + 1), x0 = irange(0, span), y0 = irange(0, span);
            Poly p = (!orth && coin(1, 3)) ? genConvex(x0, y0, w, h) : rectPoly(x0, y0, x0 + w, y0 + h);
            if (p.size() < 3 || !shapeFits(m, p, -1)) continue;
            o.kind = ADD_SHAPE; o.poly = p;
            m.shapes.push_back(p); m.shapeAlive.push_back(1); m.shapeNew.push_back(c.useTransactions);
        } else if (t <= 4) {     // move (a shape added in the same open transaction may be moved: Router::moveShape handles it)
            auto ls = liveShape(false);
            if (ls.empty()) continue;
            o.idx = pick(ls);
            if (coin(1, 2)) {
                o.kind = MOVE_REL; o.dx = irange(-span / 2, span / 2); o.dy = irange(-span / 2, span / 2);
                Poly np = shifted(m.shapes[o.idx], o.dx, o.dy);
                if (!shapeFits(m, np, o.idx)) continue;
                m.shapes[o.idx] = np;
            } else {             // absolute: also a resize
                int w = irange(1, span / 2 + 1), h = irange(1, span / 2 + 1), x0 = irange(0, span), y0 = irange(0, span);
                Poly np = rectPoly(x0, y0, x0 + w, y0 + h);
                if (!isRect(m.shapes[o.idx]) || !shapeFits(m, np, o.idx)) continue;
                o.kind = MOVE_ABS; o.poly = np; m.shapes[o.idx] = np;
            }
        } else if (t <= 6) {     // delete shape
            auto ls = liveShape(true);
            if (ls.empty()) continue;
            o.kind = DEL_SHAPE; o.idx = pick(ls); m.shapeAlive[o.idx] = 0;
        } else if (t == 7) {     // move endpoint
            auto lc = liveConn();
            if (lc.empty()) continue;
            o.kind = MOVE_END; o.idx = pick(lc); o.which = irange(0, 1);
            P e{(double)irange(-4, span * 3 / 2 + 4), (double)irange(-4, span * 3 / 2 + 4)};
            const Conn &k = m.conns[o.idx];
            if (!pointFits(m, e) || e == (o.which ? k.a : k.b)) continue;
            o.dx = e.x; o.dy = e.y;
            if (o.which == 0) m.conns[o.idx].a = e; else m.conns[o.idx].b = e;
        } else if (t == 8) {     // add connector
            Conn k; k.type = orth ? 2 : 1;
            k.a = {(double)irange(-4, span * 3 / 2 + 4), (double)irange(-4, span * 3 / 2 + 4)}; k.b = {(double)irange(-4, span * 3 / 2 + 4), (double)irange(-4, span * 3 / 2 + 4)};
            if (!pointFits(m, k.a) || !pointFits(m, k.b) || k.a == k.b) continue;
            o.kind = ADD_CONN; o.conn = k; m.conns.push_back(k); m.connAlive.push_back(1);
        } else if (t == 9) {     // delete connector
            auto lc = liveConn();
            if (lc.size() < 2) continue;
            o.kind = DEL_CONN; o.idx = pick(lc); m.connAlive[o.idx] = 0;
        } else {                 // process
            o.kind = PROCESS;
            for (auto &f : m.shapeNew) f = 0;
        }
        c.ops.push_back(o);
    }
    return c;
}
} // namespace

int main(int argc, char **argv) {
    std::vector<Prop> props;
    props.push_back({"C06.history", 1.0,
        [] { Case c = gen_case(); RC_PRE(!c.s.conns.empty()); return record("C06.history", c.str(), [&] { return eval_history(c); }); },
        [](Reader &r) { return eval_history(Case::parse(r)); }, nullptr});
    return run_main(argc, argv, props);
}
