// C13: topology-preserving layout never pulls an edge through a node.
#include "common/verif.h"
#include "libavoid/libavoid.h"
#include "libtopology/cola_topology_addon.h"
#include "libtopology/topology_graph.h"
#include "libcola/cola.h"

using namespace verif;

namespace {
struct R4 { double x, y, w, h; };
struct Case {
    std::vector<R4> nodes;
    std::vector<std::pair<int, int>> edges;
    double ideal = 60;
    int maxIter = 100;          // layout is stopped after this many iterations ("during" layout)
    bool nonOverlap = true;
    // "desired moves": when non-empty every node is locked (cola::Lock through a PreIteration) to centre+(dx,dy);
    // nodes with (0,0) stay where they are, the others are dragged past their neighbours along lattice lines
    std::vector<std::pair<double, double>> locks;
    // resizes requested before the first iteration (cola::Resize through the PreIteration): node id, new box
    struct Rz { int id; double x, y, w, h; };
    std::vector<Rz> resizes;
    std::string str() const {
        Writer w; w.tok("topo").i(nodes.size()).i(edges.size()).d(ideal).i(maxIter).i(nonOverlap).nl();
        for (auto &n : nodes) w.d(n.x).d(n.y).d(n.w).d(n.h).nl();
        for (auto &e : edges) w.i(e.first).i(e.second).nl();
        if (!locks.empty()) { w.tok("locks").nl(); for (auto &l : locks) w.d(l.first).d(l.second).nl(); }
        if (!resizes.empty()) { w.tok("resizes").i(resizes.size()).nl(); for (auto &z : resizes) w.i(z.id).d(z.x).d(z.y).d(z.w).d(z.h).nl(); }
        return w.str();
    }
    static Case parse(Reader &r) {
        Case c; r.expect("topo"); size_t n = r.i(), m = r.i(); c.ideal = r.d(); c.maxIter = r.i(); c.nonOverlap = r.i();
        for (size_t i = 0; i < n; i++) { R4 q; q.x = r.d(); q.y = r.d(); q.w = r.d(); q.h = r.d(); c.nodes.push_back(q); }
        for (size_t i = 0; i < m; i++) { int a = r.i(), b = r.i(); c.edges.push_back({a, b}); }
        while (!r.eof()) {
            std::string t = r.tok();
            if (t == "locks") for (size_t i = 0; i < n; i++) { double a = r.d(), b = r.d(); c.locks.push_back({a, b}); }
            else if (t == "resizes") { size_t k = r.i(); for (size_t i = 0; i < k; i++) { Rz z; z.id = r.i(); z.x = r.d(); z.y = r.d(); z.w = r.d(); z.h = r.d(); c.resizes.push_back(z); } }
            else throw std::runtime_error("case file: unexpected '" + t + "'");
        }
        return c;
    }
};

// resizes are applied once, before the first iteration
struct OncePre : cola::PreIteration {
    int calls = 0;
    OncePre(cola::Locks &l, cola::Resizes &r) : cola::PreIteration(l, r) {}
    bool operator()() override { if (calls++ == 1) resizes.clear(); return true; }
};

bool segThroughRect(double x0, double y0, double x1, double y1, const vpsc::Rectangle *r, double shrink) {
    double rx0 = r->getMinX() + shrink, rx1 = r->getMaxX() - shrink, ry0 = r->getMinY() + shrink, ry1 = r->getMaxY() - shrink;
    if (rx0 >= rx1 || ry0 >= ry1) return false;
    double t0 = 0, t1 = 1, dx = x1 - x0, dy = y1 - y0;
    bool out = false;
    auto clip = [&](double p, double q) { if (p == 0) { if (q < 0) out = true; return; } double rr = q / p; if (p < 0) { if (rr > t1) out = true; else if (rr > t0) t0 = rr; } else { if (rr < t0) out = true; else if (rr < t1) t1 = rr; } };
    clip(-dx, x0 - rx0); if (!out) clip(dx, rx1 - x0); if (!out) clip(-dy, y0 - ry0); if (!out) clip(dy, ry1 - y0);
    return !out && t0 < t1;
}

Verdict eval_c13(const Case &c) {
    Verdict v;
    size_t n = c.nodes.size();
    vpsc::Rectangles rs;
    for (auto &q : c.nodes) rs.push_back(new vpsc::Rectangle(q.x, q.x + q.w, q.y, q.y + q.h));
    std::vector<cola::Edge> es;
    for (auto &e : c.edges) es.push_back({(unsigned)e.first, (unsigned)e.second});
    std::vector<topology::Node *> tn;
    for (unsigned i = 0; i < n; i++) tn.push_back(new topology::Node(i, rs[i]));
    std::vector<topology::Edge *> routes;
    // initial routes: libavoid polyline routing centre to centre, tight around corners (as in libtopology/tests/beautify.cpp)
    bool bends = false;
    {
        Avoid::Router *router = new Avoid::Router(Avoid::PolyLineRouting);
        router->UseLeesAlgorithm = true; router->InvisibilityGrph = false;
        for (unsigned i = 0; i < n; i++) { Avoid::Rectangle sr(Avoid::Point(rs[i]->getMinX(), rs[i]->getMinY()), Avoid::Point(rs[i]->getMaxX(), rs[i]->getMaxY())); new Avoid::ShapeRef(router, sr, i + 1); }
        std::vector<Avoid::ConnRef *> crs;
        for (unsigned i = 0; i < es.size(); i++) { auto r0 = rs[es[i].first], r1 = rs[es[i].second]; crs.push_back(new Avoid::ConnRef(router, Avoid::Point(r0->getCentreX(), r0->getCentreY()), Avoid::Point(r1->getCentreX(), r1->getCentreY()), i + n + 1)); }
        router->processTransaction();
        for (unsigned i = 0; i < es.size(); i++) {
            const Avoid::Polygon &route = crs[i]->route();
            std::vector<topology::EdgePoint *> eps;
            eps.push_back(new topology::EdgePoint(tn[es[i].first], topology::EdgePoint::CENTRE));
            for (size_t j = 1; j + 1 < route.size(); j++) {
                const Avoid::Point &p = route.ps[j];
                topology::EdgePoint::RectIntersect ri;
                switch (p.vn) { case 0: ri = topology::EdgePoint::BR; break; case 1: ri = topology::EdgePoint::TR; break; case 2: ri = topology::EdgePoint::TL; break; case 3: ri = topology::EdgePoint::BL; break; default: ri = topology::EdgePoint::CENTRE; }
                if (p.id < 1 || p.id > n) { delete router; v.cls("initial-route-without-shape-corner(unjudged)"); return v; }
                eps.push_back(new topology::EdgePoint(tn[p.id - 1], ri));
                bends = true;
            }
            eps.push_back(new topology::EdgePoint(tn[es[i].second], topology::EdgePoint::CENTRE));
            routes.push_back(new topology::Edge(i, c.ideal, eps));
        }
        delete router;
    }
    std::vector<double> x0(n), y0(n);
    for (size_t i = 0; i < n; i++) { x0[i] = rs[i]->getCentreX(); y0[i] = rs[i]->getCentreY(); }
    {
        cola::TestConvergence done(1e-4, c.maxIter);
        cola::Locks locks;
        for (size_t i = 0; i < c.locks.size() && i < n; i++) locks.push_back(cola::Lock(i, x0[i] + c.locks[i].first, y0[i] + c.locks[i].second));
        cola::Resizes resizes;
        for (auto &z : c.resizes) if (z.id >= 0 && (size_t)z.id < n) resizes.push_back(cola::Resize(z.id, z.x, z.y, z.w, z.h));
        OncePre pre(locks, resizes);
        cola::ConstrainedFDLayout alg(rs, es, c.ideal, cola::StandardEdgeLengths, &done, (c.locks.empty() && c.resizes.empty()) ? nullptr : &pre);
        topology::ColaTopologyAddon topo(tn, routes);
        alg.setTopology(&topo);
        alg.setAvoidNodeOverlaps(c.nonOverlap);
        alg.run();
        // the addon hands back (possibly re-created) nodes and routes
        topology::ColaTopologyAddon *res = dynamic_cast<topology::ColaTopologyAddon *>(alg.getTopology());
        if (res) { tn = res->topologyNodes; routes = res->topologyRoutes; }
    }
    bool moved = false;
    if (!c.resizes.empty()) { moved = true; v.cls("resized"); }
    for (size_t i = 0; i < n; i++) if (std::fabs(rs[i]->getCentreX() - x0[i]) > c.nodes[i].w || std::fabs(rs[i]->getCentreY() - y0[i]) > c.nodes[i].h) moved = true;
    bool finalBends = false;
    for (auto *rt : routes) if (rt->nSegments > 1) finalBends = true;
    v.nontrivial = (bends || finalBends) && moved;
    if (finalBends && !bends) v.cls("bends-created-by-layout");
    if (bends) v.cls("initial-bends");
    if (moved) v.cls("node-moved-more-than-its-size");
    if (c.maxIter < 100) v.cls("stopped-early");
    if (!c.locks.empty()) v.cls("locked-drag");
    for (size_t i = 0; i < n && v.ok; i++) {
        if (!std::isfinite(rs[i]->getCentreX()) || !std::isfinite(rs[i]->getCentreY())) v.fail(fmt("node %zu has a non-finite position", i), "non-finite");
        for (size_t j = i + 1; j < n && v.ok; j++) {
            double ox = std::min(rs[i]->getMaxX(), rs[j]->getMaxX()) - std::max(rs[i]->getMinX(), rs[j]->getMinX()), oy = std::min(rs[i]->getMaxY(), rs[j]->getMaxY()) - std::max(rs[i]->getMinY(), rs[j]->getMinY());
            if (ox > 1e-3 && oy > 1e-3) v.fail(fmt("nodes %zu and %zu overlap by %.6g x %.6g", i, j, ox, oy), "node-overlap");
        }
    }
    if (routes.size() != es.size()) v.fail(fmt("%zu routes for %zu edges", routes.size(), es.size()), "route-count");
    for (unsigned e = 0; e < routes.size() && v.ok; e++) {
        topology::ConstEdgePoints path;
        routes[e]->getPath(path);
        unsigned a = es[routes[e]->id].first, b = es[routes[e]->id].second;
        if (path.size() < 2) { v.fail(fmt("edge %u has a path of %zu points", e, path.size()), "short-path"); break; }
        if (path.front()->node->id != a || path.back()->node->id != b) { v.fail(fmt("edge %u-%u now runs from node %u to node %u", a, b, path.front()->node->id, path.back()->node->id), "path-ends-changed"); break; }
        for (size_t k = 1; k < path.size() && v.ok; k++) {
            double px0 = path[k - 1]->posX(), py0 = path[k - 1]->posY(), px1 = path[k]->posX(), py1 = path[k]->posY();
            for (unsigned u = 0; u < n && v.ok; u++) {
                if (u == a || u == b) continue;
                if (segThroughRect(px0, py0, px1, py1, rs[u], 1e-6)) v.fail(fmt("edge %u-%u: segment (%g,%g)-(%g,%g) passes through node %u [%g,%g]x[%g,%g]", a, b, px0, py0, px1, py1, u, rs[u]->getMinX(), rs[u]->getMaxX(), rs[u]->getMinY(), rs[u]->getMaxY()), "edge-through-node");
            }
        }
        // interior bend points sit on a corner of their node and the path turns around that node
        for (size_t k = 1; k + 1 < path.size() && v.ok; k++) {
            const topology::EdgePoint *p = path[k];
            const vpsc::Rectangle *r = p->node->rect;
            double cx = p->posX(), cy = p->posY();
            bool onCorner = (std::fabs(cx - r->getMinX()) < 1e-6 || std::fabs(cx - r->getMaxX()) < 1e-6) && (std::fabs(cy - r->getMinY()) < 1e-6 || std::fabs(cy - r->getMaxY()) < 1e-6);
            if (!onCorner) { v.fail(fmt("edge %u-%u: bend %zu at (%g,%g) is not on a corner of node %u", a, b, k, cx, cy, p->node->id), "bend-off-corner"); break; }
            // the node's centre must lie on the inner side of the turn (or the three points are collinear)
            double ax = path[k - 1]->posX(), ay = path[k - 1]->posY(), bx = path[k + 1]->posX(), by = path[k + 1]->posY();
            double turn = (cx - ax) * (by - cy) - (cy - ay) * (bx - cx);
            double side = (cx - ax) * (r->getCentreY() - cy) - (cy - ay) * (r->getCentreX() - cx);
            if (std::fabs(turn) > 1e-9 && turn * side < 0) v.fail(fmt("edge %u-%u: bend %zu at (%g,%g) turns away from node %u instead of around it", a, b, k, cx, cy, p->node->id), "bend-turns-away");
        }
    }
    for (auto r : rs) delete r;
    return v;
}

Case gen_case() {
    Case c;
    int maxn = tier_thorough() ? 20 : 12;
    int want = sized(2, maxn);
    int gap = pick(std::vector<int>{10, 10, 5, 20});
    for (int i = 0, tries = 0; i < want && tries < 500; tries++) {
        double x = irange(0, 30) * 10, y = irange(0, 30) * 10, w = irange(2, 6) * 10, h = irange(1, 4) * 10;
        if (coin(1, 4)) { x += irange(0, 9); y += irange(0, 9); }     // off the lattice
        bool ok = true;
        for (auto &r : c.nodes) if (x < r.x + r.w + gap && r.x < x + w + gap && y < r.y + r.h + gap && r.y < y + h + gap) ok = false;
        if (ok) { c.nodes.push_back({x, y, w, h}); i++; }
    }
    int n = (int)c.nodes.size();
    if (n < 2) return c;
    int m = irange(1, n + 2);
    std::set<std::pair<int, int>> E;
    for (int j = 0; j < m; j++) { int a = irange(0, n - 1), b = irange(0, n - 1); if (a != b) E.insert({std::min(a, b), std::max(a, b)}); }
    c.edges.assign(E.begin(), E.end());
    c.ideal = pick(std::vector<double>{60, 30, 100, 150});
    c.maxIter = coin(1, 2) ? 100 : irange(1, 30);
    c.nonOverlap = true;
    return c;
}

// Lattice scene in which every node is locked and some are dragged by lattice offsets: sides of different nodes
// stay on exactly the same coordinate while the nodes slide past each other (ties in the scan order).
Case gen_locked() {
    Case c = gen_case();
    size_t n = c.nodes.size();
    // back on the lattice
    for (auto &q : c.nodes) { q.x = std::floor(q.x / 10) * 10; q.y = std::floor(q.y / 10) * 10; }
    for (size_t i = 0; i < n; i++) for (size_t j = i + 1; j < n; j++) {
        auto &a = c.nodes[i], &b = c.nodes[j];
        if (a.x < b.x + b.w && b.x < a.x + a.w && a.y < b.y + b.h && b.y < a.y + a.h) { c.nodes.resize(0); return c; }
    }
    int axis = irange(0, 2);        // 0: x only, 1: y only, 2: both
    c.locks.assign(n, {0.0, 0.0});
    int movers = irange(1, std::max<int>(1, (int)n / 2));
    for (int k = 0; k < movers; k++) {
        int i = irange(0, (int)n - 1);
        double d = irange(-12, 12) * 10, e = irange(-12, 12) * 10;
        c.locks[i] = {axis == 1 ? 0.0 : d, axis == 0 ? 0.0 : e};
    }
    c.maxIter = irange(1, 8);
    return c;
}

// Lattice scene in which one or two nodes (preferably ones an edge bends round) are resized before the first iteration.
Case gen_resize() {
    Case c = gen_case();
    size_t n = c.nodes.size();
    if (n < 2) return c;
    for (auto &q : c.nodes) { q.x = std::floor(q.x / 10) * 10; q.y = std::floor(q.y / 10) * 10; }
    for (size_t i = 0; i < n; i++) for (size_t j = i + 1; j < n; j++) {
        auto &a = c.nodes[i], &b = c.nodes[j];
        if (a.x < b.x + b.w && b.x < a.x + a.w && a.y < b.y + b.h && b.y < a.y + a.h) { c.nodes.resize(0); return c; }
    }
    int k = irange(1, 2);
    std::set<int> used;
    for (int j = 0; j < k; j++) {
        int id = irange(0, (int)n - 1);
        if (!used.insert(id).second) continue;
        auto &q = c.nodes[id];
        double l = irange(-1, 3) * 5, r = irange(-1, 3) * 5, t = irange(-1, 3) * 5, b = irange(-1, 3) * 5;
        double w = q.w + l + r, h = q.h + t + b;
        if (w < 10 || h < 10) continue;
        c.resizes.push_back({id, q.x - l, q.y - t, w, h});
    }
    c.maxIter = irange(1, 6);
    return c;
}

// Two nodes with facing sides on exactly the same line slide past each other while an edge runs between them
// (both bend round corners on that line within one pass); all eight lattice symmetries, extra bystanders.
Case gen_slide() {
    Case c;
    double w1 = irange(2, 6) * 10, h1 = irange(2, 6) * 10, w2 = irange(2, 6) * 10, h2 = irange(2, 6) * 10, g = irange(1, 6) * 10;
    R4 M{100, 120, w1, h1}, N{100 + w1, 120 - g - h2, w2, h2};
    R4 A{(double)irange(0, 8) * 10, (double)irange(0, 10) * 10, 20, 20}, B{(double)irange(16, 30) * 10, (double)irange(14, 26) * 10, 20, 20};
    c.nodes = {M, A, B, N};
    int extra = irange(0, 4);
    for (int k = 0; k < extra; k++) c.nodes.push_back({(double)irange(0, 30) * 10, (double)irange(0, 26) * 10, (double)irange(2, 5) * 10, (double)irange(1, 4) * 10});
    size_t n = c.nodes.size();
    for (size_t i = 0; i < n; i++) for (size_t j = i + 1; j < n; j++) {
        auto &a = c.nodes[i], &b = c.nodes[j];
        if (a.x < b.x + b.w && b.x < a.x + a.w && a.y < b.y + b.h && b.y < a.y + a.h) { c.nodes.resize(0); return c; }
    }
    c.edges.push_back({1, 2});
    for (int k = irange(0, 2); k > 0; k--) { int a = irange(0, (int)n - 1), b = irange(0, (int)n - 1); if (a < b && !(a == 1 && b == 2)) c.edges.push_back({a, b}); }
    std::sort(c.edges.begin(), c.edges.end()); c.edges.erase(std::unique(c.edges.begin(), c.edges.end()), c.edges.end());
    c.locks.assign(n, {0.0, 0.0});
    c.locks[0] = {0.0, -(double)irange(0, 12) * 10};
    c.locks[3] = {0.0, (double)irange(0, 12) * 10};
    if (coin(1, 4)) for (size_t i = 4; i < n; i++) c.locks[i] = {0.0, (double)irange(-6, 6) * 10};
    bool tr = coin(1, 2), fx = coin(1, 2), fy = coin(1, 2);
    for (size_t i = 0; i < n; i++) {
        auto &q = c.nodes[i]; auto &l = c.locks[i];
        if (fx) { q.x = 400 - q.x - q.w; l.first = -l.first; }
        if (fy) { q.y = 400 - q.y - q.h; l.second = -l.second; }
        if (tr) { std::swap(q.x, q.y); std::swap(q.w, q.h); std::swap(l.first, l.second); }
    }
    c.ideal = pick(std::vector<double>{60, 100, 150});
    c.maxIter = irange(1, 8);
    return c;
}
} // namespace

int main(int argc, char **argv) {
    std::vector<Prop> props;
    props.push_back({"C13.topology", 1.0,
        [] { Case c = gen_case(); RC_PRE(c.nodes.size() >= 2 && !c.edges.empty()); return record("C13.topology", c.str(), [&] { return eval_c13(c); }); },
        [](Reader &r) { return eval_c13(Case::parse(r)); }, nullptr});
    props.push_back({"C13.locked", 1.0,
        [] { Case c = gen_locked(); RC_PRE(c.nodes.size() >= 2 && !c.edges.empty()); return record("C13.locked", c.str(), [&] { return eval_c13(c); }); },
        [](Reader &r) { return eval_c13(Case::parse(r)); }, nullptr});
    props.push_back({"C13.resize", 0.5,
        [] { Case c = gen_resize(); RC_PRE(c.nodes.size() >= 2 && !c.edges.empty() && !c.resizes.empty()); return record("C13.resize", c.str(), [&] { return eval_c13(c); }); },
        [](Reader &r) { return eval_c13(Case::parse(r)); }, nullptr});
    props.push_back({"C13.slide", 1.0,
        [] { Case c = gen_slide(); RC_PRE(c.nodes.size() >= 2 && !c.edges.empty()); return record("C13.slide", c.str(), [&] { return eval_c13(c); }); },
        [](Reader &r) { return eval_c13(Case::parse(r)); }, nullptr});
    return run_main(argc, argv, props);
}
