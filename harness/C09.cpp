// C09: vpsc::removeoverlaps (all three overloads) and generateX/YConstraints.
#include "common/verif.h"
#include "libvpsc/rectangle.h"
#include "libvpsc/variable.h"
#include "libvpsc/constraint.h"
#include "libvpsc/solve_VPSC.h"
#include "libvpsc/exceptions.h"

using namespace verif;
using vpsc::Rectangle;

namespace {
struct R { double x, X, y, Y; };
struct Case {
    int mode = 0;               // 0 removeoverlaps(rs)  1 (rs,fixed,false)  2 (rs,fixed,true)
    double xb = 0, yb = 0;      // global border set before the call
    std::vector<R> rs;
    std::vector<int> fixed;
    std::vector<double> dx, dy; // desired-position vectors for the constraint-set sub-check (multiples of the scene span)
    std::string str() const {
        Writer w;
        w.tok("ro").i(mode).d(xb).d(yb).i(rs.size()).nl();
        for (auto &r : rs) w.d(r.x).d(r.X).d(r.y).d(r.Y).nl();
        w.tok("fixed").i(fixed.size()); for (int f : fixed) w.i(f); w.nl();
        w.tok("desired").i(dx.size()); for (size_t i = 0; i < dx.size(); i++) w.d(dx[i]).d(dy[i]); w.nl();
        return w.str();
    }
    static Case parse(Reader &r) {
        Case c;
        r.expect("ro"); c.mode = r.i(); c.xb = r.d(); c.yb = r.d();
        size_t n = r.i();
        for (size_t i = 0; i < n; i++) { R q; q.x = r.d(); q.X = r.d(); q.y = r.d(); q.Y = r.d(); c.rs.push_back(q); }
        r.expect("fixed"); size_t k = r.i(); for (size_t i = 0; i < k; i++) c.fixed.push_back(r.i());
        r.expect("desired"); k = r.i(); for (size_t i = 0; i < k; i++) { c.dx.push_back(r.d()); c.dy.push_back(r.d()); }
        return c;
    }
};

struct Rects {
    vpsc::Rectangles v;
    explicit Rects(const Case &c) { for (auto &r : c.rs) v.push_back(new Rectangle(r.x, r.X, r.y, r.Y)); }
    ~Rects() { for (auto r : v) delete r; }
};
struct BorderGuard {   // global state: always restored, whatever the library does
    BorderGuard(double x, double y) { Rectangle::setXBorder(x); Rectangle::setYBorder(y); }
    ~BorderGuard() { Rectangle::setXBorder(0); Rectangle::setYBorder(0); }
};

// overlap of the rectangles as the library measures them (border included)
bool overlapPair(const Rectangle *a, const Rectangle *b, double &ox, double &oy) {
    ox = std::min(a->getMaxX(), b->getMaxX()) - std::max(a->getMinX(), b->getMinX());
    oy = std::min(a->getMaxY(), b->getMaxY()) - std::max(a->getMinY(), b->getMinY());
    return ox > 1e-6 && oy > 1e-6;
}
bool anyOverlap(const vpsc::Rectangles &rs, std::string &why) {
    for (size_t i = 0; i < rs.size(); i++) for (size_t j = i + 1; j < rs.size(); j++) {
        double ox, oy;
        if (overlapPair(rs[i], rs[j], ox, oy)) { why = fmt("rectangles %zu and %zu overlap by %.9g x %.9g", i, j, ox, oy); return true; }
    }
    return false;
}

bool g_fixedRaw = false;   // replay-only: judge the 'fixed rectangles do not move' clause on every input (witness of F7)
Verdict eval_remove(const Case &c) {
    Verdict v;
    BorderGuard g(c.xb, c.yb);
    Rects R(c);
    size_t n = c.rs.size();
    std::vector<double> w, h, cx, cy;
    double avg = 0;
    for (auto r : R.v) { w.push_back(r->width()); h.push_back(r->height()); cx.push_back(r->getCentreX()); cy.push_back(r->getCentreY()); avg += (r->width() + r->height()) / 2; }
    avg /= std::max<size_t>(1, n);
    std::string why;
    bool initial = anyOverlap(R.v, why);
    v.nontrivial = initial;
    bool identical = false, thin = false;
    for (size_t i = 0; i < n; i++) {
        if (c.rs[i].X - c.rs[i].x <= 1e-3 || c.rs[i].Y - c.rs[i].y <= 1e-3) thin = true;
        for (size_t j = i + 1; j < n; j++) if (c.rs[i].x == c.rs[j].x && c.rs[i].X == c.rs[j].X && c.rs[i].y == c.rs[j].y && c.rs[i].Y == c.rs[j].Y) identical = true;
    }
    if (identical) v.cls("identical-pair");
    if (thin) v.cls("thin-rectangle");
    if (!c.fixed.empty()) v.cls("fixed-set");
    if (c.mode == 2) v.cls("third-pass");
    if (c.xb > 0 || c.yb > 0) v.cls("border>0");
    if (n >= 30) v.cls("n>=30");
    std::set<unsigned> fixed(c.fixed.begin(), c.fixed.end());
    if (c.mode == 0) vpsc::removeoverlaps(R.v);
    else vpsc::removeoverlaps(R.v, fixed, c.mode == 2);
    if (Rectangle::xBorder != c.xb || Rectangle::yBorder != c.yb) {
        v.fail(fmt("global border not restored: was (%g,%g), now (%g,%g)", c.xb, c.yb, Rectangle::xBorder, Rectangle::yBorder), "border-not-restored");
        return v;
    }
    for (size_t i = 0; i < n && v.ok; i++) {
        if (!std::isfinite(R.v[i]->getCentreX()) || !std::isfinite(R.v[i]->getCentreY())) v.fail(fmt("rectangle %zu has a non-finite position", i), "non-finite");
        if (std::fabs(R.v[i]->width() - w[i]) > 1e-8 * std::max(1.0, w[i]) || std::fabs(R.v[i]->height() - h[i]) > 1e-8 * std::max(1.0, h[i]))
            v.fail(fmt("rectangle %zu changed size: %.12g x %.12g -> %.12g x %.12g", i, w[i], h[i], R.v[i]->width(), R.v[i]->height()), "size-changed");
    }
    if (v.ok && anyOverlap(R.v, why)) v.fail("after removeoverlaps: " + why, "overlap-remains");
    // "fixed" rectangles: weight 10000, not hard constraints (known finding F7).  The clause is judged where
    // the mechanism can deliver it: exactly one fixed rectangle and an a-priori displacement bound
    // (n-1) * 2 * (scene extent + sum of sizes) / 10000 that is below half the 1% threshold.
    if (v.ok && !c.fixed.empty()) {
        double lo = 1e300, hi = -1e300, sum = 0;
        for (auto &r : c.rs) { lo = std::min({lo, r.x, r.y}); hi = std::max({hi, r.X, r.Y}); sum += (r.X - r.x) + (r.Y - r.y) + 2 * (c.xb + c.yb) + 4e-3; }
        double bound = (n - 1) * 2.0 * ((hi - lo) + sum) / 10000.0;
        if (g_fixedRaw) {
            for (int f : c.fixed) { double mv = std::max(std::fabs(R.v[f]->getCentreX() - cx[f]), std::fabs(R.v[f]->getCentreY() - cy[f])); if (mv >= 0.01 * avg && v.ok) v.fail(fmt("fixed rectangle %d moved by %.6g, average size %.6g", f, mv, avg), "F7-fixed-is-only-weight-10000"); }
        } else if (c.fixed.size() == 1 && bound < 0.005 * avg) {
            int f = c.fixed[0];
            double mv = std::max(std::fabs(R.v[f]->getCentreX() - cx[f]), std::fabs(R.v[f]->getCentreY() - cy[f]));
            v.cls("fixed-clause-judged");
            if (mv >= 0.01 * avg) v.fail(fmt("fixed rectangle %d moved by %.6g, average size %.6g", f, mv, avg), "fixed-moved");
        } else v.excluded.push_back("F7-fixed-is-only-weight-10000");
    }
    return v;
}

// generateXConstraints / generateYConstraints: acyclic, and every placement that satisfies
// them is overlap free.  Placements are sampled by solving the constraints for several
// desired-position vectors (c.dx/c.dy, plus "all equal" and "reversed").
bool acyclic(size_t n, const vpsc::Constraints &cs) {
    std::vector<int> indeg(n, 0);
    std::vector<std::vector<int>> out(n);
    for (auto k : cs) { out[k->left->id].push_back(k->right->id); indeg[k->right->id]++; }
    std::vector<int> st;
    for (size_t i = 0; i < n; i++) if (!indeg[i]) st.push_back((int)i);
    size_t seen = 0;
    while (!st.empty()) { int u = st.back(); st.pop_back(); seen++; for (int w : out[u]) if (!--indeg[w]) st.push_back(w); }
    return seen == n;
}
Verdict eval_constraints(const Case &c) {
    Verdict v;
    BorderGuard g(c.xb, c.yb);
    size_t n = c.rs.size();
    { Rects R0(c); std::string why; v.nontrivial = anyOverlap(R0.v, why); }
    if (c.xb > 0 || c.yb > 0) v.cls("border>0");
    for (int axis = 0; axis < 2 && v.ok; axis++) {
        for (int nl = 0; nl < (axis == 0 ? 2 : 1) && v.ok; nl++) {       // x: with and without neighbour lists
            size_t samples = c.dx.size() / std::max<size_t>(1, n) + 2;
            for (size_t s = 0; s < samples && v.ok; s++) {
                Rects R(c);
                vpsc::Variables vs;
                vpsc::Constraints cs;
                for (size_t i = 0; i < n; i++) {
                    double centre = axis == 0 ? R.v[i]->getCentreX() : R.v[i]->getCentreY();
                    double want;
                    if (s == 0) want = 0;                               // all equal: maximal pile
                    else if (s == 1) want = -centre;                    // reversed order
                    else want = (axis == 0 ? c.dx : c.dy)[(s - 2) * n + i];
                    vs.push_back(new vpsc::Variable((int)i, want, 1.0));
                }
                if (axis == 0) vpsc::generateXConstraints(R.v, vs, cs, nl == 1);
                else vpsc::generateYConstraints(R.v, vs, cs);
                const char *what = axis == 0 ? (nl ? "generateXConstraints(useNeighbourLists=true)" : "generateXConstraints(useNeighbourLists=false)") : "generateYConstraints";
                if (!acyclic(n, cs)) v.fail(fmt("%s produced a cyclic constraint graph (%zu constraints)", what, cs.size()), "cyclic-constraints");
                if (v.ok) {
                    bool threw = false;
                    try { vpsc::Solver sv(vs, cs); sv.solve(); }
                    catch (vpsc::UnsatisfiedConstraint &) { threw = true; }
                    if (threw) v.fail(fmt("%s: the generated constraints are unsatisfiable", what), "unsat-constraints");
                }
                // Without neighbour lists the x constraints alone must separate every pair that overlaps in y
                // (likewise y constraints / x overlap).  With neighbour lists only the x-then-y sequence is
                // promised, which eval_remove covers; here only acyclicity and satisfiability are required.
                if (v.ok && !(axis == 0 && nl == 1)) {
                    for (size_t i = 0; i < n; i++) { if (axis == 0) R.v[i]->moveCentreX(vs[i]->finalPosition); else R.v[i]->moveCentreY(vs[i]->finalPosition); }
                    std::string why;
                    if (anyOverlap(R.v, why)) v.fail(fmt("%s: a placement satisfying the constraints (desired vector #%zu) still has an overlap: %s", what, s, why.c_str()), "constraints-insufficient");
                }
                for (auto k : cs) delete k;
                for (auto x : vs) delete x;
            }
        }
    }
    return v;
}

// ---------------------------------------------------------------- generator
double q4(int lo, int hi) { return irange(lo * 4, hi * 4) / 4.0; }
Case gen_case(bool forConstraints) {
    Case c;
    int maxn = tier_thorough() ? 200 : 40;
    if (forConstraints) maxn = tier_thorough() ? 60 : 25;
    int n = sized(1, maxn);
    int fam = irange(0, 6);   // 0 random 1 identical copies 2 thin 3 lattice ties 4 nested 5 chain 6 small pile with one fixed
    int span = irange(4, 60);
    if (!forConstraints && fam == 6) { n = irange(2, 4); span = irange(1, 4); }
    c.xb = pick(std::vector<double>{0, 0, 0, 0.5, 3});
    c.yb = pick(std::vector<double>{0, 0, 0, 0.5, 3});
    if (fam == 6) c.xb = c.yb = 0;
    for (int i = 0; i < n; i++) {
        R r;
        double w = q4(1, 10), h = q4(1, 10);
        r.x = q4(0, span); r.y = q4(0, span);
        switch (fam) {
            case 1: if (i > 0 && coin(2, 3)) { c.rs.push_back(c.rs[irange(0, i - 1)]); continue; } break;
            case 2: if (coin(1, 3)) w = 1e-3; if (coin(1, 3)) h = 1e-3; break;
            case 3: r.x = irange(0, span / 4 + 1) * 4; r.y = irange(0, span / 4 + 1) * 4; w = irange(1, 3) * 4; h = irange(1, 3) * 4; break;
            case 4: if (i > 0) { const R &o = c.rs[irange(0, i - 1)]; double ow = o.X - o.x, oh = o.Y - o.y; w = ow * irange(1, 4) / 4.0; h = oh * irange(1, 4) / 4.0; r.x = o.x + (ow - w) * irange(0, 2) / 2.0; r.y = o.y + (oh - h) * irange(0, 2) / 2.0; } break;
            case 5: if (i > 0) { const R &o = c.rs[i - 1]; r.x = o.x + (o.X - o.x) * irange(1, 4) / 4.0; r.y = o.y + (coin(1, 2) ? 0 : q4(-2, 2)); } break;
            case 6: w = q4(2, 6); h = q4(2, 6); r.x = q4(0, 2); r.y = q4(0, 2); break;
            default: break;
        }
        r.X = r.x + w; r.Y = r.y + h;
        c.rs.push_back(r);
    }
    n = (int)c.rs.size();
    if (forConstraints) {
        int extra = irange(1, 3);
        for (int s = 0; s < extra; s++) for (int i = 0; i < n; i++) { c.dx.push_back(q4(-span, 2 * span)); c.dy.push_back(q4(-span, 2 * span)); }
        return c;
    }
    c.mode = irange(0, 2);
    if (fam == 6) { c.mode = irange(1, 2); c.fixed.push_back(irange(0, n - 1)); }
    else if (c.mode > 0) for (int i = 0; i < n; i++) if (coin(1, 5)) c.fixed.push_back(i);
    return c;
}
} // namespace

int main(int argc, char **argv) {
    std::vector<Prop> props;
    props.push_back({"C09.remove", 1.0,
        [] { Case c = gen_case(false); return record("C09.remove", c.str(), [&] { return eval_remove(c); }, true); },
        [](Reader &r) { return eval_remove(Case::parse(r)); }, nullptr});
    props.push_back({"C09.fixedraw", 0, nullptr,
        [](Reader &r) { g_fixedRaw = true; Verdict v = eval_remove(Case::parse(r)); g_fixedRaw = false; return v; }, nullptr});
    props.push_back({"C09.constraints", 0.5,
        [] { Case c = gen_case(true); return record("C09.constraints", c.str(), [&] { return eval_constraints(c); }, true); },
        [](Reader &r) { return eval_constraints(Case::parse(r)); }, nullptr});
    return run_main(argc, argv, props);
}
