// C07 (layout output satisfies every compound constraint or reports it unsatisfiable; sizes
// unchanged; finite) and C08 (overlap avoidance and rectangular-cluster containment).
#include "common/verif.h"
#include <libcola/cola.h>
#include <libcola/compound_constraints.h>
#include <libcola/cluster.h>
#include <libvpsc/rectangle.h>
#include <numeric>

using namespace verif;

namespace {
struct R4 { double x, y, w, h; };
struct CC {                 // one compound constraint
    int kind;               // 0 separation 1 alignment 2 boundary 3 distribution 4 multi-separation 5 fixed-relative 6 separation between alignments
    int dim = 0;
    int l = 0, r = 0; double gap = 0; bool eq = false;          // separation; for kind 6: l, r index alignments
    std::vector<std::pair<int, double>> members;               // alignment / boundary (node, offset); fixed-relative (node, -)
    std::vector<std::pair<int, int>> pairs;                     // distribution / multi-separation: indices of alignment constraints in the list
    double fixPos = 0; bool fixed = false;
};
struct Cluster { std::vector<int> nodes; std::vector<int> children; double padding = 0, margin = 0; };
struct Case {
    std::vector<R4> nodes;
    std::vector<std::pair<int, int>> edges;
    double ideal = 60;
    std::vector<CC> ccs;
    bool nonOverlap = false, makeFeasible = true, neighbourStress = false;
    int runDims = 3;                       // bit0 x, bit1 y
    std::vector<std::vector<int>> exempt;  // exemption groups
    std::vector<Cluster> clusters;         // clusters[0..] ; top-level ones listed in topClusters
    std::vector<int> topClusters;
    // two-stage recipe (libcola's documented way to add overlap avoidance): a first ConstrainedFDLayout is made feasible and
    // run without overlap avoidance, node `pertNode` is then dragged by (pertDx, pertDy), and a second ConstrainedFDLayout over
    // the SAME rectangles and compound-constraint objects is made feasible and run with the case's own settings
    bool twoStage = false; int pertNode = 0; double pertDx = 0, pertDy = 0;
    std::string str() const {
        Writer w;
        w.tok("cola").i(nodes.size()).i(edges.size()).d(ideal).i(nonOverlap).i(makeFeasible).i(neighbourStress).i(runDims).nl();
        for (auto &n : nodes) w.d(n.x).d(n.y).d(n.w).d(n.h).nl();
        for (auto &e : edges) w.i(e.first).i(e.second).nl();
        w.tok("constraints").i(ccs.size()).nl();
        for (auto &c : ccs) {
            w.i(c.kind).i(c.dim).i(c.l).i(c.r).d(c.gap).i(c.eq).d(c.fixPos).i(c.fixed).i(c.members.size());
            for (auto &m : c.members) w.i(m.first).d(m.second);
            w.i(c.pairs.size());
            for (auto &p : c.pairs) w.i(p.first).i(p.second);
            w.nl();
        }
        w.tok("exempt").i(exempt.size()); for (auto &g : exempt) { w.i(g.size()); for (int x : g) w.i(x); } w.nl();
        w.tok("clusters").i(clusters.size()).nl();
        for (auto &c : clusters) { w.d(c.padding).d(c.margin).i(c.nodes.size()); for (int x : c.nodes) w.i(x); w.i(c.children.size()); for (int x : c.children) w.i(x); w.nl(); }
        w.tok("top").i(topClusters.size()); for (int x : topClusters) w.i(x); w.nl();
        if (twoStage) w.tok("twostage").i(pertNode).d(pertDx).d(pertDy).nl();
        return w.str();
    }
    static Case parse(Reader &r) {
        Case c; r.expect("cola"); size_t n = r.i(), m = r.i(); c.ideal = r.d(); c.nonOverlap = r.i(); c.makeFeasible = r.i(); c.neighbourStress = r.i(); c.runDims = r.i();
        for (size_t i = 0; i < n; i++) { R4 q; q.x = r.d(); q.y = r.d(); q.w = r.d(); q.h = r.d(); c.nodes.push_back(q); }
        for (size_t i = 0; i < m; i++) { int a = r.i(), b = r.i(); c.edges.push_back({a, b}); }
        r.expect("constraints"); size_t k = r.i();
        for (size_t i = 0; i < k; i++) {
            CC x; x.kind = r.i(); x.dim = r.i(); x.l = r.i(); x.r = r.i(); x.gap = r.d(); x.eq = r.i(); x.fixPos = r.d(); x.fixed = r.i();
            size_t q = r.i(); for (size_t j = 0; j < q; j++) { int nd = r.i(); double off = r.d(); x.members.push_back({nd, off}); }
            q = r.i(); for (size_t j = 0; j < q; j++) { int a = r.i(), b = r.i(); x.pairs.push_back({a, b}); }
            c.ccs.push_back(x);
        }
        r.expect("exempt"); k = r.i(); for (size_t i = 0; i < k; i++) { size_t q = r.i(); std::vector<int> g; for (size_t j = 0; j < q; j++) g.push_back(r.i()); c.exempt.push_back(g); }
        r.expect("clusters"); k = r.i();
        for (size_t i = 0; i < k; i++) { Cluster cl; cl.padding = r.d(); cl.margin = r.d(); size_t q = r.i(); for (size_t j = 0; j < q; j++) cl.nodes.push_back(r.i()); q = r.i(); for (size_t j = 0; j < q; j++) cl.children.push_back(r.i()); c.clusters.push_back(cl); }
        r.expect("top"); k = r.i(); for (size_t i = 0; i < k; i++) c.topClusters.push_back(r.i());
        if (!r.eof()) { r.expect("twostage"); c.twoStage = true; c.pertNode = r.i(); c.pertDx = r.d(); c.pertDy = r.d(); }
        return c;
    }
};

struct Run {
    vpsc::Rectangles rs;
    cola::CompoundConstraints ccs;
    cola::UnsatisfiableConstraintInfos ux, uy;
    cola::RootCluster *root = nullptr;
    std::vector<cola::RectangularCluster *> rcs;
    ~Run() { for (auto u : ux) delete u; for (auto u : uy) delete u; for (auto c : ccs) delete c; for (auto r : rs) delete r; delete root; }
};

// shared: build and run the layout; fills `unsat` with the compound constraints reported unsatisfiable
void layout(const Case &c, Run &run, std::set<cola::CompoundConstraint *> &unsat) {
    for (auto &n : c.nodes) run.rs.push_back(new vpsc::Rectangle(n.x, n.x + n.w, n.y, n.y + n.h));
    std::vector<cola::Edge> es;
    for (auto &e : c.edges) es.push_back({(unsigned)e.first, (unsigned)e.second});
    std::vector<cola::AlignmentConstraint *> aligns(c.ccs.size(), nullptr);
    for (size_t i = 0; i < c.ccs.size(); i++) {
        const CC &k = c.ccs[i];
        cola::CompoundConstraint *cc = nullptr;
        switch (k.kind) {
            case 0: cc = new cola::SeparationConstraint((vpsc::Dim)k.dim, k.l, k.r, k.gap, k.eq); break;
            case 1: { auto *a = new cola::AlignmentConstraint((vpsc::Dim)k.dim); for (auto &m : k.members) a->addShape(m.first, m.second); if (k.fixed) a->fixPos(k.fixPos); aligns[i] = a; cc = a; break; }
            case 2: { auto *b = new cola::BoundaryConstraint((vpsc::Dim)k.dim); for (auto &m : k.members) b->addShape(m.first, m.second); cc = b; break; }
            case 3: { auto *d = new cola::DistributionConstraint((vpsc::Dim)k.dim); for (auto &p : k.pairs) d->addAlignmentPair(aligns[p.first], aligns[p.second]); d->setSeparation(k.gap); cc = d; break; }
            case 4: { auto *ms = new cola::MultiSeparationConstraint((vpsc::Dim)k.dim, k.gap, k.eq); for (auto &p : k.pairs) ms->addAlignmentPair(aligns[p.first], aligns[p.second]); cc = ms; break; }
            case 5: { std::vector<unsigned> ids; for (auto &m : k.members) ids.push_back(m.first); cc = new cola::FixedRelativeConstraint(run.rs, ids, false); break; }
            case 6: cc = new cola::SeparationConstraint((vpsc::Dim)k.dim, aligns[k.l], aligns[k.r], k.gap, k.eq); break;
        }
        run.ccs.push_back(cc);
    }
    if (c.twoStage) {
        cola::ConstrainedFDLayout first(run.rs, es, c.ideal);
        first.setConstraints(run.ccs);
        first.setUnsatisfiableConstraintInfo(&run.ux, &run.uy);
        first.makeFeasible();
        first.run(true, true);
        vpsc::Rectangle *pr = run.rs[c.pertNode];
        pr->moveCentre(pr->getCentreX() + c.pertDx, pr->getCentreY() + c.pertDy);
    }
    cola::ConstrainedFDLayout alg(run.rs, es, c.ideal);
    alg.setConstraints(run.ccs);
    if (c.nonOverlap) {
        cola::ListOfNodeIndexes groups;
        for (auto &g : c.exempt) { cola::NodeIndexes ni; for (int x : g) ni.push_back(x); groups.push_back(ni); }
        alg.setAvoidNodeOverlaps(true, groups);
    }
    if (c.neighbourStress) alg.setUseNeighbourStress(true);
    if (!c.clusters.empty()) {
        run.root = new cola::RootCluster();
        for (auto &cl : c.clusters) { auto *rc = new cola::RectangularCluster(); rc->setPadding(cl.padding); rc->setMargin(cl.margin); for (int x : cl.nodes) rc->addChildNode(x); run.rcs.push_back(rc); }
        for (size_t i = 0; i < c.clusters.size(); i++) for (int ch : c.clusters[i].children) run.rcs[i]->addChildCluster(run.rcs[ch]);
        for (int t : c.topClusters) run.root->addChildCluster(run.rcs[t]);
        std::set<int> inCluster;
        for (auto &cl : c.clusters) for (int x : cl.nodes) inCluster.insert(x);
        for (size_t i = 0; i < c.nodes.size(); i++) if (!inCluster.count((int)i)) run.root->addChildNode((unsigned)i);
        alg.setClusterHierarchy(run.root);
    }
    alg.setUnsatisfiableConstraintInfo(&run.ux, &run.uy);
    if (c.makeFeasible) alg.makeFeasible();
    if (c.runDims) alg.run(c.runDims & 1, c.runDims & 2);      // runDims == 0: makeFeasible() only
    for (auto u : run.ux) unsat.insert(u->cc);
    for (auto u : run.uy) unsat.insert(u->cc);
}

double pos(const Run &r, int dim, int i) { return dim ? r.rs[i]->getCentreY() : r.rs[i]->getCentreX(); }

// Is the set of user constraints of one axis jointly satisfiable?  They are difference constraints over node
// centres, alignment lines and boundary lines: decided exactly (integer data) by Bellman-Ford longest paths.
bool axisFeasible(const Case &c, int dim, const std::vector<double> &P0x, const std::vector<double> &P0y) {
    int n = (int)c.nodes.size();
    int vars = n;
    std::vector<int> lineVar(c.ccs.size(), -1);
    for (size_t i = 0; i < c.ccs.size(); i++) if ((c.ccs[i].kind == 1 || c.ccs[i].kind == 2) && c.ccs[i].dim == dim) lineVar[i] = vars++;
    struct D { int l, r; double g; };          // x_r - x_l >= g
    std::vector<D> ds;
    auto eqc = [&](int l, int r, double g) { ds.push_back({l, r, g}); ds.push_back({r, l, -g}); };
    for (size_t i = 0; i < c.ccs.size(); i++) {
        const CC &k = c.ccs[i];
        if (k.kind == 5) { for (size_t a = 0; a + 1 < k.members.size(); a++) { int na = k.members[a].first, nb = k.members[a + 1].first; const std::vector<double> &W = dim ? P0y : P0x; eqc(na, nb, W[nb] - W[na]); } continue; }
        if (k.dim != dim) continue;
        switch (k.kind) {
            case 0: if (k.eq) eqc(k.l, k.r, k.gap); else ds.push_back({k.l, k.r, k.gap}); break;
            case 1: for (auto &m : k.members) eqc(lineVar[i], m.first, m.second); break;
            case 2: for (auto &m : k.members) { if (m.second < 0) ds.push_back({m.first, lineVar[i], -m.second}); else ds.push_back({lineVar[i], m.first, m.second}); } break;
            case 3: for (auto &p : k.pairs) eqc(lineVar[p.first], lineVar[p.second], k.gap); break;
            case 4: for (auto &p : k.pairs) { if (k.eq) eqc(lineVar[p.first], lineVar[p.second], k.gap); else ds.push_back({lineVar[p.first], lineVar[p.second], k.gap}); } break;
            case 6: if (k.eq) eqc(lineVar[k.l], lineVar[k.r], k.gap); else ds.push_back({lineVar[k.l], lineVar[k.r], k.gap}); break;
        }
    }
    std::vector<double> x(vars, 0);
    for (int it = 0; it <= vars + 1; it++) { bool ch = false; for (auto &d : ds) if (x[d.l] + d.g > x[d.r] + 1e-9) { x[d.r] = x[d.l] + d.g; ch = true; } if (!ch) return true; }
    return false;
}

// ---------------------------------------------------------------- C07
Verdict eval_c07(const Case &c) {
    Verdict v;
    Run run;
    std::set<cola::CompoundConstraint *> unsat;
    layout(c, run, unsat);
    if (c.twoStage) v.cls("two-stage");
    if (c.runDims == 0) v.cls("makeFeasible-only");
    std::vector<R4> init = c.nodes;
    auto P0 = [&](int dim, int i) { return dim ? init[i].y + init[i].h / 2 : init[i].x + init[i].w / 2; };
    std::set<int> kinds;
    bool violatedInitially = false;
    const double tol = 1e-4;
    auto lineOf = [&](const CC &a, bool initial) { return (initial ? P0(a.dim, a.members[0].first) : pos(run, a.dim, a.members[0].first)) - a.members[0].second; };
    for (size_t i = 0; i < c.nodes.size() && v.ok; i++) {
        if (!std::isfinite(run.rs[i]->getCentreX()) || !std::isfinite(run.rs[i]->getCentreY())) v.fail(fmt("node %zu has a non-finite position", i), "non-finite");
        if (run.rs[i]->width() != c.nodes[i].w && std::fabs(run.rs[i]->width() - c.nodes[i].w) > 1e-9 * std::max(1.0, c.nodes[i].w)) v.fail(fmt("node %zu width changed from %.12g to %.12g", i, c.nodes[i].w, run.rs[i]->width()), "size-changed");
        if (run.rs[i]->height() != c.nodes[i].h && std::fabs(run.rs[i]->height() - c.nodes[i].h) > 1e-9 * std::max(1.0, c.nodes[i].h)) v.fail(fmt("node %zu height changed from %.12g to %.12g", i, c.nodes[i].h, run.rs[i]->height()), "size-changed");
    }
    for (size_t i = 0; i < c.ccs.size() && v.ok; i++) {
        const CC &k = c.ccs[i];
        kinds.insert(k.kind);
        // run(x, y) only works on the requested axes; without makeFeasible() a constraint of the other axis is never applied
        bool applied = c.makeFeasible || (k.kind == 5 ? c.runDims == 3 : ((c.runDims >> k.dim) & 1));
        if (!applied) { v.cls("constraint-in-axis-not-run(unjudged)"); continue; }
        for (int initial = 1; initial >= 0 && v.ok; initial--) {
            auto X = [&](int node) { return initial ? P0(k.dim, node) : pos(run, k.dim, node); };
            std::string bad;
            switch (k.kind) {
                case 0: { double sl = X(k.r) - X(k.l) - k.gap; if (k.eq ? std::fabs(sl) > tol : sl < -tol) bad = fmt("separation node %d + %g %s node %d (dim %d) off by %.6g", k.l, k.gap, k.eq ? "==" : "<=", k.r, k.dim, k.eq ? std::fabs(sl) : -sl); break; }
                case 1: { double l0 = X(k.members[0].first) - k.members[0].second; for (auto &m : k.members) if (std::fabs(X(m.first) - m.second - l0) > tol) bad = fmt("alignment (dim %d): node %d is %.6g off the line of node %d", k.dim, m.first, X(m.first) - m.second - l0, k.members[0].first);
                          /* fixPos() is documented as an *ideal* position with a higher weight, not a constraint: not judged */ break; }
                case 2: { double lo = -1e300, hi = 1e300; for (auto &m : k.members) { if (m.second < 0) lo = std::max(lo, X(m.first) - m.second); else hi = std::min(hi, X(m.first) - m.second); } if (lo > hi + tol) bad = fmt("boundary (dim %d): left members reach %.6g, right members start at %.6g", k.dim, lo, hi); break; }
                case 3: case 4: case 6: {
                    std::vector<std::pair<int, int>> prs = k.kind == 6 ? std::vector<std::pair<int, int>>{{k.l, k.r}} : k.pairs;
                    for (auto &p : prs) {
                        double d = lineOf(c.ccs[p.second], initial) - lineOf(c.ccs[p.first], initial);
                        bool eq = k.kind == 3 || k.eq;
                        if (eq ? std::fabs(d - k.gap) > tol : d < k.gap - tol) bad = fmt("%s (dim %d): alignment lines %d and %d are %.6g apart, required %s %g", k.kind == 3 ? "distribution" : (k.kind == 4 ? "multi-separation" : "alignment separation"), k.dim, p.first, p.second, d, eq ? "==" : ">=", k.gap);
                    }
                    break; }
                case 5: { for (size_t a = 0; a < k.members.size(); a++) for (size_t b = a + 1; b < k.members.size(); b++) for (int d = 0; d < 2; d++) {
                              int na = k.members[a].first, nb = k.members[b].first;
                              double now = pos(run, d, nb) - pos(run, d, na), was = P0(d, nb) - P0(d, na);
                              if (!initial && std::fabs(now - was) > tol) bad = fmt("fixed-relative: nodes %d,%d moved relative to each other by %.6g in dim %d", na, nb, now - was, d);
                          } break; }
            }
            if (initial) { if (!bad.empty()) violatedInitially = true; continue; }
            if (!bad.empty() && !unsat.count(run.ccs[i])) {
                // known finding F12: in a jointly unsatisfiable mix a constraint can end up violated without any report
                std::vector<double> p0x, p0y;
                for (size_t q = 0; q < c.nodes.size(); q++) { p0x.push_back(P0(0, (int)q)); p0y.push_back(P0(1, (int)q)); }
                bool feas = k.kind == 5 ? (axisFeasible(c, 0, p0x, p0y) && axisFeasible(c, 1, p0x, p0y)) : axisFeasible(c, k.dim, p0x, p0y);
                // known finding F45: right after makeFeasible() alone (no run()), a jointly satisfiable EQUALITY (alignment, '==' separation,
                // distribution, fixed-relative) can be left violated and unreported; inequalities are not covered by that signature
                bool equality = k.kind == 1 || k.kind == 3 || k.kind == 5 || ((k.kind == 0 || k.kind == 4 || k.kind == 6) && k.eq);
                bool f45 = feas && c.runDims == 0 && equality;
                v.fail("constraint #" + std::to_string(i) + " is violated and was not reported unsatisfiable" + (feas ? "" : " (the constraints of this axis are jointly unsatisfiable)") + (f45 ? " [an equality, right after makeFeasible() without run()]" : "") + ": " + bad,
                       !feas ? "F12-unsatisfiable-mix-violation-unreported" : (f45 ? "F45-equality-violated-after-makeFeasible-alone" : "constraint-violated-unreported"));
            }
        }
    }
    v.nontrivial = kinds.size() >= 2 && violatedInitially;
    if (!unsat.empty()) v.cls("some-reported-unsatisfiable");
    for (int k : kinds) v.cls(fmt("kind-%d", k));
    if (c.nonOverlap) v.cls("with-overlap-avoidance");
    if (!c.makeFeasible) v.cls("without-makeFeasible");
    return v;
}

// ---------------------------------------------------------------- C08
Verdict eval_c08(const Case &c) {
    Verdict v;
    Run run;
    std::set<cola::CompoundConstraint *> unsat;
    // initial overlap?
    bool initialOverlap = false, coincident = false;
    for (size_t i = 0; i < c.nodes.size(); i++) for (size_t j = i + 1; j < c.nodes.size(); j++) {
        double ox = std::min(c.nodes[i].x + c.nodes[i].w, c.nodes[j].x + c.nodes[j].w) - std::max(c.nodes[i].x, c.nodes[j].x), oy = std::min(c.nodes[i].y + c.nodes[i].h, c.nodes[j].y + c.nodes[j].h) - std::max(c.nodes[i].y, c.nodes[j].y);
        if (ox > 1e-3 && oy > 1e-3) initialOverlap = true;
        if (c.nodes[i].x == c.nodes[j].x && c.nodes[i].y == c.nodes[j].y) coincident = true;
    }
    layout(c, run, unsat);
    v.nontrivial = initialOverlap;
    if (coincident) v.cls("coincident-pair");
    if (!c.clusters.empty()) v.cls("clusters");
    if (!c.exempt.empty()) v.cls("exemptions");
    if (c.exempt.size() >= 2) v.cls(">=2-exemption-groups");
    if (c.twoStage) v.cls("two-stage");
    if (!run.ux.empty() || !run.uy.empty()) { v.cls("reported-unsatisfiable(unjudged)"); v.nontrivial = false; return v; }
    size_t n = c.nodes.size();
    for (size_t i = 0; i < n && v.ok; i++) if (!std::isfinite(run.rs[i]->getCentreX()) || !std::isfinite(run.rs[i]->getCentreY())) v.fail(fmt("node %zu has a non-finite position", i), "non-finite");
    auto exempted = [&](int a, int b) { for (auto &g : c.exempt) if (std::count(g.begin(), g.end(), a) && std::count(g.begin(), g.end(), b)) return true; return false; };
    // nodes of different clusters (or cluster / no cluster) are kept apart by the cluster constraints, same-cluster nodes by non-overlap
    for (size_t i = 0; i < n && v.ok; i++) for (size_t j = i + 1; j < n && v.ok; j++) {
        if (exempted((int)i, (int)j)) continue;
        double ox = std::min(run.rs[i]->getMaxX(), run.rs[j]->getMaxX()) - std::max(run.rs[i]->getMinX(), run.rs[j]->getMinX());
        double oy = std::min(run.rs[i]->getMaxY(), run.rs[j]->getMaxY()) - std::max(run.rs[i]->getMinY(), run.rs[j]->getMinY());
        if (ox > 1e-3 && oy > 1e-3) v.fail(fmt("nodes %zu and %zu overlap by %.6g x %.6g", i, j, ox, oy), "node-overlap");
    }
    // cluster containment: member bounding boxes of sibling clusters are disjoint; no outsider inside a cluster's member box
    std::function<void(int, std::set<int> &)> collect = [&](int ci, std::set<int> &out) { for (int x : c.clusters[ci].nodes) out.insert(x); for (int ch : c.clusters[ci].children) collect(ch, out); };
    auto boxOf = [&](const std::set<int> &mem, double b[4]) { b[0] = b[1] = 1e300; b[2] = b[3] = -1e300; for (int x : mem) { b[0] = std::min(b[0], run.rs[x]->getMinX()); b[1] = std::min(b[1], run.rs[x]->getMinY()); b[2] = std::max(b[2], run.rs[x]->getMaxX()); b[3] = std::max(b[3], run.rs[x]->getMaxY()); } };
    std::vector<std::vector<int>> siblingSets{c.topClusters};
    for (auto &cl : c.clusters) if (!cl.children.empty()) siblingSets.push_back(cl.children);
    for (auto &sib : siblingSets) for (size_t a = 0; a < sib.size() && v.ok; a++) {
        std::set<int> ma; collect(sib[a], ma);
        if (ma.empty()) continue;
        double ba[4]; boxOf(ma, ba);
        for (size_t b2 = a + 1; b2 < sib.size() && v.ok; b2++) {
            std::set<int> mb; collect(sib[b2], mb);
            if (mb.empty()) continue;
            double bb[4]; boxOf(mb, bb);
            double ox = std::min(ba[2], bb[2]) - std::max(ba[0], bb[0]), oy = std::min(ba[3], bb[3]) - std::max(ba[1], bb[1]);
            if (ox > 1e-3 && oy > 1e-3) v.fail(fmt("member bounding boxes of sibling clusters %d and %d overlap by %.6g x %.6g", sib[a], sib[b2], ox, oy), "sibling-clusters-overlap");
        }
    }
    for (size_t ci = 0; ci < c.clusters.size() && v.ok; ci++) {
        std::set<int> mem; collect((int)ci, mem);
        if (mem.empty()) continue;
        double bx[4]; boxOf(mem, bx);
        for (size_t i = 0; i < n && v.ok; i++) {
            if (mem.count((int)i)) continue;
            double ox = std::min(bx[2], run.rs[i]->getMaxX()) - std::max(bx[0], run.rs[i]->getMinX()), oy = std::min(bx[3], run.rs[i]->getMaxY()) - std::max(bx[1], run.rs[i]->getMinY());
            if (ox > 1e-3 && oy > 1e-3) v.fail(fmt("node %zu, not a member of cluster %zu, lies inside that cluster's member bounding box (overlap %.6g x %.6g)", i, ci, ox, oy), "outsider-in-cluster");
        }
    }
    return v;
}

// ---------------------------------------------------------------- generators
void genGraph(Case &c, int maxn, bool piles) {
    int n = sized(1, maxn);
    int span = irange(20, 300);
    for (int i = 0; i < n; i++) {
        R4 r{(double)irange(0, span), (double)irange(0, span), (double)irange(5, 60), (double)irange(5, 60)};
        if (piles && i > 0 && coin(1, 2)) { const R4 &o = c.nodes[irange(0, i - 1)]; r.x = o.x + (coin(1, 2) ? 0 : irange(-5, 5)); r.y = o.y + (coin(1, 2) ? 0 : irange(-5, 5)); }
        c.nodes.push_back(r);
    }
    int m = irange(0, 2 * n);
    std::set<std::pair<int, int>> E;
    for (int j = 0; j < m; j++) { int a = irange(0, n - 1), b = irange(0, n - 1); if (a != b) E.insert({std::min(a, b), std::max(a, b)}); }
    c.edges.assign(E.begin(), E.end());
    c.ideal = irange(20, 100);
}
void genConstraints(Case &c, bool witnessBuilt, const std::vector<double> &wx, const std::vector<double> &wy) {
    int n = (int)c.nodes.size();
    if (n < 2) return;
    int nc = irange(1, 9);
    std::set<int> aligned[2];
    std::set<int> frUsed;          // nodes of fixed-relative groups: a node is in at most one group, and an alignment takes at most one of them
                                   // (two equalities over the same pair of nodes are redundant equalities, documented as unsupported)
    std::vector<int> alignIdx[2];
    for (int k = 0; k < nc; k++) {
        CC x; x.dim = irange(0, 1);
        const std::vector<double> &W = x.dim ? wy : wx;
        int kind = irange(0, 9);
        if (alignIdx[x.dim].size() >= 2 && coin(1, 2)) kind = 7;       // once two alignments exist, relate them often
        if (kind <= 2) {           // separation
            x.kind = 0; x.l = irange(0, n - 1); x.r = irange(0, n - 1); if (x.l == x.r) continue;
            x.eq = coin(1, 5);
            x.gap = witnessBuilt ? (x.eq ? W[x.r] - W[x.l] : W[x.r] - W[x.l] - irange(0, 30)) : irange(-20, 80);
        } else if (kind <= 5) {    // alignment
            x.kind = 1; double line = irange(0, 300); int q = irange(2, 4); std::set<int> used;
            bool hasFr = false;
            for (int j = 0; j < q; j++) { int i = irange(0, n - 1); if (used.count(i) || aligned[x.dim].count(i) || (hasFr && frUsed.count(i))) continue; if (frUsed.count(i)) hasFr = true; used.insert(i); x.members.push_back({i, witnessBuilt ? W[i] - line : (double)irange(-20, 20)}); }
            if (x.members.size() < 2) continue;
            for (auto &m : x.members) aligned[x.dim].insert(m.first);
            if (coin(1, 6)) { x.fixed = true; x.fixPos = witnessBuilt ? line : irange(0, 300); }
            alignIdx[x.dim].push_back((int)c.ccs.size());
        } else if (kind == 6) {    // boundary
            x.kind = 2; double p = irange(0, 300); int q = irange(2, 4); std::set<int> used;
            for (int j = 0; j < q; j++) { int i = irange(0, n - 1); if (used.count(i)) continue; used.insert(i); double off = irange(1, 30) * (coin(1, 2) ? 1 : -1); if (witnessBuilt) { double d = W[i] - p; if (d == 0) continue; off = d > 0 ? std::max(1.0, d - irange(0, 10)) : std::min(-1.0, d + irange(0, 10)); } x.members.push_back({i, off}); }
            if (x.members.size() < 2) continue;
        } else if (kind == 7 && alignIdx[x.dim].size() >= 2) {   // distribution / multi separation / alignment separation between two alignments
            int a = alignIdx[x.dim][irange(0, (int)alignIdx[x.dim].size() - 1)], b = alignIdx[x.dim][irange(0, (int)alignIdx[x.dim].size() - 1)];
            if (a == b) continue;
            auto line = [&](int idx) { const CC &al = c.ccs[idx]; return W[al.members[0].first] - al.members[0].second; };
            double d = line(b) - line(a);
            int sub = irange(0, 2);
            x.kind = sub == 0 ? 3 : (sub == 1 ? 4 : 6);
            if (x.kind == 6) { x.l = a; x.r = b; } else x.pairs.push_back({a, b});
            x.eq = x.kind == 3 || coin(1, 3);
            x.gap = witnessBuilt ? (x.eq ? d : d - irange(0, 20)) : irange(-10, 60);
            if (x.kind == 3 && x.gap == 0 && !witnessBuilt) x.gap = 10;
        } else if (kind == 8) {    // fixed relative
            x.kind = 5; int q = irange(2, 3); std::set<int> used;
            int al[2] = {0, 0};
            for (int j = 0; j < q; j++) { int i = irange(0, n - 1); if (frUsed.count(i) || !used.insert(i).second) continue; x.members.push_back({i, 0}); for (int dd = 0; dd < 2; dd++) if (aligned[dd].count(i)) al[dd]++; }
            if (x.members.size() < 2 || witnessBuilt || al[0] >= 2 || al[1] >= 2) continue;      // (a witness placement would have to keep the initial offsets)
            for (auto &m : x.members) frUsed.insert(m.first);
        } else continue;
        c.ccs.push_back(x);
    }
}
Case gen_c07() {
    Case c;
    genGraph(c, tier_thorough() ? 30 : 12, coin(1, 4));
    int n = (int)c.nodes.size();
    std::vector<double> wx(n), wy(n);
    for (int i = 0; i < n; i++) { wx[i] = irange(0, 300); wy[i] = irange(0, 300); }
    c.nonOverlap = coin(1, 3); c.makeFeasible = !coin(1, 3); c.neighbourStress = coin(1, 5);
    if (c.nonOverlap) {
        // Known finding F28: with overlap avoidance on, user constraints that force two rectangles to overlap make the
        // layout loop without terminating.  Excluded by construction: the constraints come from an overlap-free witness.
        int cols = (int)std::ceil(std::sqrt((double)n));
        for (int i = 0; i < n; i++) { wx[i] = (i % cols) * 80.0; wy[i] = (i / cols) * 80.0; }
        genConstraints(c, true, wx, wy);
    } else genConstraints(c, coin(1, 2), wx, wy);
    c.runDims = pick(std::vector<int>{3, 3, 3, 1, 2});
    if (c.makeFeasible && coin(1, 5)) c.runDims = 0;        // the property also speaks about the positions right after makeFeasible()
    if (n >= 1 && coin(1, 4)) { c.twoStage = true; c.makeFeasible = true; c.pertNode = irange(0, n - 1); c.pertDx = irange(-100, 100); c.pertDy = irange(-100, 100); }
    return c;
}
Case gen_c08() {
    Case c;
    genGraph(c, tier_thorough() ? 24 : 10, true);
    int n = (int)c.nodes.size();
    c.nonOverlap = true; c.makeFeasible = true; c.runDims = 3;
    if (coin(1, 3) && n >= 3) {       // 1-3 exemption groups (they may share nodes)
        int ng = irange(1, 3);
        for (int gi = 0; gi < ng; gi++) { std::vector<int> g; for (int i = 0; i < n; i++) if (coin(1, 3)) g.push_back(i); if (g.size() >= 2) c.exempt.push_back(g); }
    }
    if (coin(2, 3) && n >= 3) {        // cluster hierarchy, depth <= 2, disjoint node sets
        std::vector<int> perm(n); std::iota(perm.begin(), perm.end(), 0);
        for (int i = n - 1; i > 0; i--) std::swap(perm[i], perm[irange(0, i)]);
        int k = irange(1, 3), at = 0;
        for (int ci = 0; ci < k && at < n; ci++) { Cluster cl; cl.padding = irange(0, 10); cl.margin = irange(0, 10); int q = irange(1, std::max(1, n / 3)); for (int j = 0; j < q && at < n; j++) cl.nodes.push_back(perm[at++]); c.clusters.push_back(cl); }
        for (size_t ci = 0; ci < c.clusters.size(); ci++) c.topClusters.push_back((int)ci);
        if (c.clusters.size() >= 2 && coin(1, 2)) { c.clusters[0].children.push_back((int)c.clusters.size() - 1); c.topClusters.pop_back(); }   // nest the last into the first
        c.exempt.clear();
    } else if (coin(1, 3)) {           // witness-built constraints whose witness is overlap free: a grid
        std::vector<double> wx(n), wy(n);
        int cols = (int)std::ceil(std::sqrt((double)n));
        for (int i = 0; i < n; i++) { wx[i] = (i % cols) * 80.0; wy[i] = (i / cols) * 80.0; }
        genConstraints(c, true, wx, wy);
    }
    if (coin(1, 6)) { c.twoStage = true; c.pertNode = irange(0, n - 1); c.pertDx = irange(-60, 60); c.pertDy = irange(-60, 60); }
    return c;
}
} // namespace

int main(int argc, char **argv) {
    std::vector<Prop> props;
    auto add = [&](const char *name, double w, std::function<Case()> g, std::function<Verdict(const Case &)> e) {
        std::string n = name;
        props.push_back({n, w, [n, g, e] { Case c = g(); return record(n, c.str(), [&] { return e(c); }); }, [e](Reader &r) { return e(Case::parse(r)); }, nullptr});
    };
    add("C07.layout", 1.0, gen_c07, eval_c07);
    add("C08.nonoverlap", 1.0, gen_c08, eval_c08);
    return run_main(argc, argv, props);
}
