// Allocation-order permuter (C20): replaces global operator new/delete for small blocks with a pool
// whose slots are handed out in a pseudo-random order chosen by a key.  Two runs of the same
// computation under different keys see the same allocation *sequence* but a different address
// *order*, which makes any dependence on pointer order (pointer-keyed sets, `u < v` tie-breaks,
// unordered containers keyed by address) observable without relying on the system allocator's mood.
// Built only into harnesses of the `plain` flavour (no sanitizer).
#pragma once
#include <cstdlib>
#include <cstdint>
#include <cstring>
#include <new>
#include <sys/mman.h>

namespace permalloc {
static const size_t STEP = 16, NCLASS = 32, CHUNK = 512;            // size classes 16..512 bytes
static const size_t CLASS_SPAN = (size_t)1 << 32;                   // 4 GiB of address space per class (reserved, not committed)
struct Cls { char *base; size_t nextChunk; void *avail[CHUNK]; size_t navail; void **freed; size_t nfreed, capfreed; };
static Cls cls[NCLASS];
static char *arena = nullptr;
static bool enabled = false;
static uint64_t state = 88172645463325252ull;
static uint64_t allocations = 0;
inline uint64_t rnd() { state ^= state << 13; state ^= state >> 7; state ^= state << 17; return state; }
inline void init() {
    if (arena) return;
    arena = (char *)mmap(nullptr, CLASS_SPAN * NCLASS, PROT_READ | PROT_WRITE, MAP_PRIVATE | MAP_ANONYMOUS | MAP_NORESERVE, -1, 0);
    if (arena == MAP_FAILED) { arena = nullptr; return; }
    for (size_t c = 0; c < NCLASS; c++) { cls[c].base = arena + c * CLASS_SPAN; cls[c].nextChunk = 0; cls[c].navail = 0; cls[c].freed = nullptr; cls[c].nfreed = cls[c].capfreed = 0; }
}
// start handing out addresses in the order determined by `key`
inline void rekey(uint64_t key) {
    init();
    state = key * 0x9E3779B97F4A7C15ull + 0x1234567ull;
    if (!state) state = 1;
    for (size_t c = 0; c < NCLASS; c++) {
        // shuffle what is currently available and what has been freed
        for (size_t i = cls[c].navail; i > 1; i--) { size_t j = rnd() % i; void *t = cls[c].avail[i - 1]; cls[c].avail[i - 1] = cls[c].avail[j]; cls[c].avail[j] = t; }
        for (size_t i = cls[c].nfreed; i > 1; i--) { size_t j = rnd() % i; void *t = cls[c].freed[i - 1]; cls[c].freed[i - 1] = cls[c].freed[j]; cls[c].freed[j] = t; }
    }
    enabled = arena != nullptr;
}
inline void *alloc(size_t n) {
    if (!enabled || n == 0 || n > STEP * NCLASS) return std::malloc(n ? n : 1);
    size_t c = (n - 1) / STEP, slot = (c + 1) * STEP;
    Cls &k = cls[c];
    allocations++;
    // mostly fresh slots in permuted order; sometimes a freed one
    if (k.nfreed > 64 || (k.nfreed > 0 && (rnd() & 3) == 0)) { size_t j = rnd() % k.nfreed; void *p = k.freed[j]; k.freed[j] = k.freed[--k.nfreed]; return p; }
    if (k.navail == 0) {
        if ((k.nextChunk + 1) * CHUNK * slot > CLASS_SPAN) return std::malloc(n);
        char *chunk = k.base + k.nextChunk * CHUNK * slot;
        k.nextChunk++;
        for (size_t i = 0; i < CHUNK; i++) k.avail[i] = chunk + i * slot;
        for (size_t i = CHUNK; i > 1; i--) { size_t j = rnd() % i; void *t = k.avail[i - 1]; k.avail[i - 1] = k.avail[j]; k.avail[j] = t; }
        k.navail = CHUNK;
    }
    return k.avail[--k.navail];
}
inline void release(void *p) {
    if (!p) return;
    if (!arena || (char *)p < arena || (char *)p >= arena + CLASS_SPAN * NCLASS) { std::free(p); return; }
    size_t c = ((char *)p - arena) / CLASS_SPAN;
    Cls &k = cls[c];
    if (k.nfreed == k.capfreed) { size_t nc = k.capfreed ? k.capfreed * 2 : 1024; void **nf = (void **)std::malloc(nc * sizeof(void *)); if (k.freed) { std::memcpy(nf, k.freed, k.nfreed * sizeof(void *)); std::free(k.freed); } k.freed = nf; k.capfreed = nc; }
    k.freed[k.nfreed++] = p;
}
} // namespace permalloc

void *operator new(size_t n) { void *p = permalloc::alloc(n); if (!p) throw std::bad_alloc(); return p; }
void *operator new[](size_t n) { void *p = permalloc::alloc(n); if (!p) throw std::bad_alloc(); return p; }
void operator delete(void *p) noexcept { permalloc::release(p); }
void operator delete[](void *p) noexcept { permalloc::release(p); }
void operator delete(void *p, size_t) noexcept { permalloc::release(p); }
void operator delete[](void *p, size_t) noexcept { permalloc::release(p); }
