// VPSC problem model shared by C01, C02 and C20: problem text format, generators,
// Bellman-Ford feasibility oracle, self-certifying QP oracle (Hildreth dual
// ascent + active-set polish + duality-gap certificate), and a solver runner
// templated over the two copies of the solver (vpsc:: and Avoid::).
#pragma once
#include "verif.h"
#include <numeric>
#include "libvpsc/solve_VPSC.h"
#include "libvpsc/variable.h"
#include "libvpsc/constraint.h"
#include "libvpsc/exceptions.h"
#include "libavoid/vpsc.h"

namespace vm {
using namespace verif;

struct C { int l, r; double g; bool eq; };
struct Prob {
    int n = 0;
    std::vector<double> d, w, s;
    std::vector<C> cs;
    void put(Writer &o) const {
        o.tok("vpsc").i(n).i(cs.size()).nl();
        for (int i = 0; i < n; i++) o.d(d[i]).d(w[i]).d(s[i]).nl();
        for (auto &c : cs) o.i(c.l).i(c.r).d(c.g).i(c.eq).nl();
    }
    static Prob get(Reader &r) {
        Prob p;
        r.expect("vpsc");
        p.n = r.i();
        size_t m = r.i();
        for (int i = 0; i < p.n; i++) { p.d.push_back(r.d()); p.w.push_back(r.d()); p.s.push_back(r.d()); }
        for (size_t k = 0; k < m; k++) { C c; c.l = r.i(); c.r = r.i(); c.g = r.d(); c.eq = r.i(); p.cs.push_back(c); }
        return p;
    }
    bool unitScale() const { for (double x : s) if (x != 1) return false; return true; }
    bool hasEq() const { for (auto &c : cs) if (c.eq) return true; return false; }
    double scaleOf() const { double m = 1; for (double x : d) m = std::max(m, std::fabs(x)); return m; }
};

// ---------------------------------------------------------------- feasibility (unit scale)
// Difference constraints x_r - x_l >= g (and <= g for equalities): infeasible iff
// the constraint graph has a positive cycle.  Longest-path Bellman-Ford.  All
// generated gaps are multiples of 1/2, so the arithmetic is exact.
inline bool feasible(const Prob &p) {
    std::vector<double> x(p.n, 0);
    for (int it = 0; it <= p.n + 1; it++) {
        bool ch = false;
        for (auto &c : p.cs) {
            if (x[c.l] + c.g > x[c.r]) { x[c.r] = x[c.l] + c.g; ch = true; }
            if (c.eq && x[c.r] - c.g > x[c.l]) { x[c.l] = x[c.r] - c.g; ch = true; }
        }
        if (!ch) return true;
    }
    return false;
}

// ---------------------------------------------------------------- QP oracle
struct Opt {
    bool certified = false;
    std::vector<double> x;          // oracle optimum x(lambda)
    std::vector<double> lam;
    double bound = 0;               // rigorous bound on ||x - x*||_2 (duality gap / strong convexity)
    double fup = 0;                 // objective of a feasible point next to x
    int sweeps = 0;
    bool polished = false;
    int maxBlock = 1;               // largest block of the optimal active set
    int nActive = 0;
    bool degenerate = false;        // >=1 tight constraint with zero multiplier
};

inline void primal_from_dual(const Prob &p, const std::vector<double> &lam, std::vector<long double> &x) {
    x.assign(p.n, 0);
    for (int i = 0; i < p.n; i++) x[i] = p.d[i];
    for (size_t c = 0; c < p.cs.size(); c++) {
        if (lam[c] == 0) continue;
        auto &k = p.cs[c];
        x[k.r] += (long double)lam[c] * p.s[k.r] / (2 * (long double)p.w[k.r]);
        x[k.l] -= (long double)lam[c] * p.s[k.l] / (2 * (long double)p.w[k.l]);
    }
}

// duality-gap certificate for a dual-feasible lambda; fills x, bound, fup
inline bool certify(const Prob &p, const std::vector<double> &lam, Opt &o) {
    std::vector<long double> x;
    primal_from_dual(p, lam, x);
    std::vector<long double> xf = x;
    bool unit = p.unitScale();
    bool ok = false;
    for (int it = 0; it <= p.n + 2 && !ok; it++) {
        ok = true;
        for (auto &c : p.cs) {
            long double lhs = p.s[c.r] * xf[c.r] - p.s[c.l] * xf[c.l];
            if (lhs < c.g) { xf[c.r] = (p.s[c.l] * xf[c.l] + c.g) / p.s[c.r]; ok = false; }
            else if (c.eq && lhs > c.g) { xf[c.l] = (p.s[c.r] * xf[c.r] - c.g) / p.s[c.l]; ok = false; }
        }
        if (!unit && it > p.n) break;
    }
    if (!ok) {
        long double worst = 0;
        for (auto &c : p.cs) {
            long double lhs = p.s[c.r] * xf[c.r] - p.s[c.l] * xf[c.l];
            worst = std::max(worst, c.g - lhs);
            if (c.eq) worst = std::max(worst, lhs - c.g);
        }
        if (worst > 1e-13L * p.scaleOf()) return false;
    }
    long double gap = 0, wmin = 1e300L, f = 0;
    for (size_t c = 0; c < p.cs.size(); c++) {
        auto &k = p.cs[c];
        gap += (long double)lam[c] * (p.s[k.r] * x[k.r] - p.s[k.l] * x[k.l] - k.g);
    }
    for (int i = 0; i < p.n; i++) {
        gap += p.w[i] * (xf[i] - x[i]) * (xf[i] + x[i] - 2 * (long double)p.d[i]);
        wmin = std::min(wmin, (long double)p.w[i]);
        f += p.w[i] * (xf[i] - p.d[i]) * (xf[i] - p.d[i]);
    }
    o.x.assign(p.n, 0);
    for (int i = 0; i < p.n; i++) o.x[i] = (double)x[i];
    o.lam = lam;
    o.bound = (double)std::sqrt(std::max(gap, (long double)0) / wmin);
    o.fup = (double)f;
    return o.bound <= 1e-6 * p.scaleOf();
}

inline bool polish(const Prob &p, std::vector<double> &lam) {
    std::vector<int> S;
    for (size_t c = 0; c < p.cs.size(); c++) if (p.cs[c].eq || lam[c] > 1e-11) S.push_back((int)c);
    int k = (int)S.size();
    if (k == 0 || k > 400) return false;
    std::vector<long double> M((size_t)k * k, 0), rhs(k, 0);
    auto H = [&](int i) { return 1 / (2 * (long double)p.w[i]); };
    for (int a = 0; a < k; a++) {
        auto &ca = p.cs[S[a]];
        rhs[a] = ca.g - (p.s[ca.r] * (long double)p.d[ca.r] - p.s[ca.l] * (long double)p.d[ca.l]);
        for (int b = 0; b < k; b++) {
            auto &cb = p.cs[S[b]];
            long double v = 0;
            if (ca.r == cb.r) v += p.s[ca.r] * p.s[cb.r] * H(ca.r);
            if (ca.l == cb.l) v += p.s[ca.l] * p.s[cb.l] * H(ca.l);
            if (ca.r == cb.l) v -= p.s[ca.r] * p.s[cb.l] * H(ca.r);
            if (ca.l == cb.r) v -= p.s[ca.l] * p.s[cb.r] * H(ca.l);
            M[(size_t)a * k + b] = v;
        }
    }
    // Cholesky M = L L^T
    for (int j = 0; j < k; j++) {
        long double dsum = M[(size_t)j * k + j];
        for (int t = 0; t < j; t++) dsum -= M[(size_t)j * k + t] * M[(size_t)j * k + t];
        if (dsum <= 1e-12L * M[(size_t)j * k + j] || dsum <= 0) return false;   // dependent rows: give up
        long double ljj = std::sqrt(dsum);
        M[(size_t)j * k + j] = ljj;
        for (int i = j + 1; i < k; i++) {
            long double v = M[(size_t)i * k + j];
            for (int t = 0; t < j; t++) v -= M[(size_t)i * k + t] * M[(size_t)j * k + t];
            M[(size_t)i * k + j] = v / ljj;
        }
    }
    std::vector<long double> y(k), z(k);
    for (int i = 0; i < k; i++) { long double v = rhs[i]; for (int t = 0; t < i; t++) v -= M[(size_t)i * k + t] * y[t]; y[i] = v / M[(size_t)i * k + i]; }
    for (int i = k - 1; i >= 0; i--) { long double v = y[i]; for (int t = i + 1; t < k; t++) v -= M[(size_t)t * k + i] * z[t]; z[i] = v / M[(size_t)i * k + i]; }
    std::vector<double> nl(p.cs.size(), 0);
    for (int a = 0; a < k; a++) {
        if (!p.cs[S[a]].eq && z[a] < -1e-9) return false;     // wrong active set guess
        nl[S[a]] = p.cs[S[a]].eq ? (double)z[a] : std::max(0.0, (double)z[a]);
    }
    lam = nl;
    return true;
}

inline Opt qp_oracle(const Prob &p, int maxSweeps = 40000) {
    Opt o;
    size_t m = p.cs.size();
    std::vector<double> lam(m, 0), q(m), x = p.d;
    for (size_t c = 0; c < m; c++) {
        auto &k = p.cs[c];
        q[c] = p.s[k.r] * p.s[k.r] / (2 * p.w[k.r]) + p.s[k.l] * p.s[k.l] / (2 * p.w[k.l]);
    }
    double sc = p.scaleOf();
    for (int it = 1; it <= maxSweeps; it++) {
        double mx = 0;
        for (size_t c = 0; c < m; c++) {
            auto &k = p.cs[c];
            double r = k.g - (p.s[k.r] * x[k.r] - p.s[k.l] * x[k.l]);
            double nl = lam[c] + r / q[c];
            if (!k.eq && nl < 0) nl = 0;
            double dl = nl - lam[c];
            if (dl != 0) {
                lam[c] = nl;
                x[k.r] += dl * p.s[k.r] / (2 * p.w[k.r]);
                x[k.l] -= dl * p.s[k.l] / (2 * p.w[k.l]);
                mx = std::max(mx, std::fabs(dl * q[c]));
            }
        }
        o.sweeps = it;
        bool conv = mx < 1e-13 * sc;
        if (conv || it % 64 == 0) {
            std::vector<double> l2 = lam;
            Opt t;
            if (polish(p, l2) && certify(p, l2, t)) { t.sweeps = it; t.polished = true; t.certified = true; o = t; break; }
            if (conv) { if (certify(p, lam, t)) { t.sweeps = it; t.certified = true; o = t; } break; }
            // resynchronise x with lambda to stop drift
            std::vector<long double> xx; primal_from_dual(p, lam, xx);
            for (int i = 0; i < p.n; i++) x[i] = (double)xx[i];
        }
    }
    if (o.certified) {
        std::vector<int> uf(p.n);
        std::iota(uf.begin(), uf.end(), 0);
        std::function<int(int)> find = [&](int a) { return uf[a] == a ? a : uf[a] = find(uf[a]); };
        for (size_t c = 0; c < m; c++) {
            auto &k = p.cs[c];
            double slack = p.s[k.r] * o.x[k.r] - p.s[k.l] * o.x[k.l] - k.g;
            bool act = k.eq || o.lam[c] > 1e-9;
            if (act) { o.nActive++; uf[find(k.l)] = find(k.r); }
            else if (std::fabs(slack) < 1e-9) o.degenerate = true;
        }
        std::map<int, int> cnt;
        for (int i = 0; i < p.n; i++) o.maxBlock = std::max(o.maxBlock, ++cnt[find(i)]);
    }
    return o;
}

// ---------------------------------------------------------------- running a solver
enum SolverKind { INC = 0, STATIC = 1, AVOID = 2 };
inline const char *kindName(int k) { return k == INC ? "vpsc::IncSolver" : k == STATIC ? "vpsc::Solver" : "Avoid::IncSolver"; }

struct NSvpsc { typedef vpsc::Variable V; typedef vpsc::Constraint K; typedef vpsc::IncSolver Inc; typedef vpsc::Solver Stat; typedef vpsc::UnsatisfiedConstraint Unsat; };
struct NSavoid { typedef Avoid::Variable V; typedef Avoid::Constraint K; typedef Avoid::IncSolver Inc; typedef Avoid::IncSolver Stat; typedef Avoid::UnsatisfiedConstraint Unsat; };

struct Outcome {
    std::vector<double> x;
    std::vector<char> flagged;
    bool threwUnsat = false;       // UnsatisfiedConstraint (static solver's documented report)
    bool threwChar = false;        // the char* thrown by IncSolver::satisfy
    std::string what;
};

// A live solver over a problem: lets histories add constraints and move desired positions.
template <class NS> struct Live {
    std::vector<typename NS::V *> vs;
    std::vector<typename NS::K *> cs;
    typename NS::Inc *inc = nullptr;
    typename NS::Stat *stat = nullptr;
    Live(const Prob &p, bool incremental) {
        for (int i = 0; i < p.n; i++) vs.push_back(new typename NS::V(i, p.d[i], p.w[i], p.s[i]));
        for (auto &c : p.cs) cs.push_back(new typename NS::K(vs[c.l], vs[c.r], c.g, c.eq));
        cs.reserve(cs.size() + 4096);     // the solver keeps a reference to this vector
        if (incremental) inc = new typename NS::Inc(vs, cs); else stat = new typename NS::Stat(vs, cs);
    }
    ~Live() { delete inc; delete stat; for (auto c : cs) delete c; for (auto v : vs) delete v; }
    void add(const C &c) {
        // what cola's makeFeasible does: extend the caller's vector and tell the solver
        auto *k = new typename NS::K(vs[c.l], vs[c.r], c.g, c.eq);
        cs.push_back(k);
        inc->addConstraint(k);
    }
    Outcome call(bool solve) {
        Outcome o;
        try {
            if (inc) { if (solve) inc->solve(); else inc->satisfy(); }
            else { if (solve) stat->solve(); else stat->satisfy(); }
        } catch (typename NS::Unsat &) { o.threwUnsat = true; o.what = "UnsatisfiedConstraint thrown"; }
        catch (char *s) { o.threwChar = true; o.what = "char* exception thrown by satisfy()"; }
        catch (const char *s) { o.threwChar = true; o.what = "char* exception thrown by satisfy()"; }
        for (auto v : vs) o.x.push_back(v->finalPosition);
        for (auto c : cs) o.flagged.push_back(c->unsatisfiable);
        return o;
    }
};

// C01 clauses (a) finite, (b) every unflagged constraint holds to 1e-6, (c) flagged <=> infeasible
inline void judge_c01(const Prob &p, const Outcome &o, int kind, Verdict &v, bool everFlaggedBefore = false) {
    const char *sn = kindName(kind);
    bool anyflag = false;
    for (char f : o.flagged) anyflag |= (bool)f;
    if (o.threwChar) { v.fail(fmt("%s: satisfy() gave up with its 'Unsatisfied constraint' char* exception", sn), "threw-char"); return; }
    if (!o.threwUnsat) {
        for (int i = 0; i < p.n; i++) if (!std::isfinite(o.x[i])) { v.fail(fmt("%s: position of variable %d is %g", sn, i, o.x[i]), "non-finite"); return; }
        for (size_t j = 0; j < p.cs.size(); j++) {
            if (o.flagged[j]) continue;
            auto &c = p.cs[j];
            double sl = p.s[c.r] * o.x[c.r] - p.s[c.l] * o.x[c.l] - c.g;
            if (c.eq ? std::fabs(sl) > 1e-6 : sl < -1e-6) {
                v.fail(fmt("%s: constraint #%zu  %g*x%d + %g %s %g*x%d not flagged but violated by %.9g (x%d=%.9g x%d=%.9g)", sn, j, p.s[c.l], c.l, c.g,
                           c.eq ? "==" : "<=", p.s[c.r], c.r, c.eq ? std::fabs(sl) : -sl, c.l, o.x[c.l], c.r, o.x[c.r]), c.eq ? "eq-violated" : "ineq-violated");
                return;
            }
        }
    }
    if (!p.hasEq() && p.unitScale()) {
        bool feas = feasible(p);
        bool reported = anyflag || o.threwUnsat;
        if (feas && reported && !everFlaggedBefore) v.fail(fmt("%s: system is feasible (no positive cycle) but %s", sn, o.threwUnsat ? "UnsatisfiedConstraint was thrown" : "a constraint was flagged unsatisfiable"), "false-unsat");
        if (!feas && !reported) v.fail(fmt("%s: system has a positive-gap cycle but nothing was flagged or thrown", sn), "missed-infeasible");
        v.cls(feas ? "feasible" : "infeasible");
    } else if (o.threwUnsat && kind == STATIC) {
        // static solver on a DAG is always feasible: a throw is a false report
        v.fail(fmt("%s: UnsatisfiedConstraint thrown on an acyclic (hence feasible) system", sn), "false-unsat");
    }
}

// C02: compare with the certified optimum
inline void judge_c02(const Prob &p, const Outcome &o, const Opt &opt, int kind, Verdict &v, const char *ctx = "") {
    const char *sn = kindName(kind);
    double sc = p.scaleOf(), tol = 1e-5 * sc + opt.bound;
    double worst = 0; int wi = -1;
    for (int i = 0; i < p.n; i++) { double e = std::fabs(o.x[i] - opt.x[i]); if (e > worst) { worst = e; wi = i; } }
    if (worst > tol) {
        double fs = 0;
        for (int i = 0; i < p.n; i++) fs += p.w[i] * (o.x[i] - p.d[i]) * (o.x[i] - p.d[i]);
        // Known finding F42 (narrow mechanistic signature): the static Solver::refine() gives up after 100 splits.  Granted only
        // when repeating solve() on the same Solver object (each call refines for another 100 splits) reaches the certified optimum.
        bool resumes = false; int calls = 1;
        if (kind == STATIC) {
            Live<NSvpsc> L(p, false);
            for (; calls <= 64 && !resumes; calls++) {
                Outcome oo = L.call(true);
                if (oo.threwUnsat || oo.threwChar) break;
                double w2 = 0;
                for (int i = 0; i < p.n; i++) w2 = std::max(w2, std::fabs(oo.x[i] - opt.x[i]));
                if (calls > 1 && w2 <= tol) resumes = true;
            }
        }
        v.fail(fmt("%s%s: solve() is not the optimum: x%d=%.9g, certified optimum %.9g (|diff| %.3g > %.3g; oracle error bound %.2g); objective solver %.9f vs feasible oracle point %.9f%s",
                   sn, ctx, wi, o.x[wi], opt.x[wi], worst, tol, opt.bound, fs, opt.fup, resumes ? fmt(" [a %d-fold repeated solve() reaches the optimum: refine() stopped at its 100-split limit]", calls - 1).c_str() : ""),
               resumes ? "F42-static-refine-100-split-limit" : "suboptimal");
    }
}

// ---------------------------------------------------------------- generators
inline double grid(int lo2, int hi2, int den) { return irange(lo2, hi2) / (double)den; }

enum Shape { DAG = 0, CYCLIC = 1, CHAINS = 2, NEAR_INFEASIBLE = 3, WITNESS = 4 };

// feasibleOnly: only shapes that are feasible by construction (DAG, WITNESS)
inline Prob gen_prob(int maxn, int shape, bool allowEq, bool allowScale, bool allowWeights) {
    Prob p;
    p.n = sized(1, maxn);
    bool weights = allowWeights && coin(1, 2), scales = allowScale && shape == DAG && coin(1, 2);
    for (int i = 0; i < p.n; i++) {
        p.d.push_back(grid(-256, 256, 4));
        p.w.push_back(weights ? std::ldexp(1.0, irange(-3, 6)) : 1.0);
        p.s.push_back(scales ? std::ldexp(1.0, irange(-1, 2)) : 1.0);
    }
    if (coin(1, 6)) { double v0 = grid(-8, 8, 4); for (int i = 0; i < p.n; i++) if (coin(2, 3)) p.d[i] = v0; }   // many ties
    if (p.n < 2) return p;
    int m = irange(0, 2 * p.n);
    double eqp = allowEq && coin(1, 2) ? 0.15 : 0;
    auto isEq = [&] { return eqp > 0 && irange(0, 99) < 15; };
    std::vector<int> perm(p.n);
    std::iota(perm.begin(), perm.end(), 0);
    for (int i = p.n - 1; i > 0; i--) std::swap(perm[i], perm[irange(0, i)]);
    std::vector<double> wit(p.n);
    for (auto &x : wit) x = grid(-80, 80, 2);
    if (coin(1, 3)) std::sort(wit.begin(), wit.end());
    for (int j = 0; j < m; j++) {
        int a = irange(0, p.n - 1), b = irange(0, p.n - 1);
        if (shape == CHAINS) { b = std::min(p.n - 1, a + irange(1, 2)); }
        if (a == b) continue;
        C c;
        switch (shape) {
            case DAG:
                if (a > b) std::swap(a, b);
                c = {perm[a], perm[b], grid(-16, 24, 2), false};
                if (isEq()) c.eq = true;
                break;
            case CYCLIC:
                c = {a, b, grid(-16, 24, 2), isEq()};
                break;
            case CHAINS:
                c = {a, b, grid(-4, 12, 2), isEq()};
                break;
            default: {   // WITNESS / NEAR_INFEASIBLE: gaps admitted by a witness placement, many of them tight
                double diff = wit[b] - wit[a];
                bool e = isEq();
                double slack = e ? 0 : pick(std::vector<double>{0, 0, 0.5, 1, 3, 10});
                c = {a, b, diff - slack, e};
            }
        }
        p.cs.push_back(c);
        if ((shape == CHAINS || coin(1, 12)) && coin(1, 3)) { C dup = c; if (coin(1, 2)) dup.g -= 0.5; dup.eq = false; p.cs.push_back(dup); }   // duplicates
    }
    if (shape == NEAR_INFEASIBLE && !p.cs.empty()) {
        // close a cycle on the witness and tip it over by half a unit
        int k = irange(0, (int)p.cs.size() - 1);
        C t = p.cs[k];
        p.cs.push_back({t.r, t.l, -(t.g) + (coin(1, 2) ? 0.5 : 0.0), false});
    }
    return p;
}

} // namespace vm
