// libavoid scene model shared by C03-C06, C10-C12, C20: lattice scenes of convex
// shapes, connectors, router configuration; text format; router construction;
// independent geometry and the reference searches (visibility-graph shortest
// path, clearance-based path existence, Hanan-grid orthogonal search).
#pragma once
#include "verif.h"
#include <queue>
#include <array>
#include "libavoid/libavoid.h"

namespace sc {
using namespace verif;

struct P { double x = 0, y = 0; };
inline bool operator==(const P &a, const P &b) { return a.x == b.x && a.y == b.y; }
typedef std::vector<P> Poly;            // convex, library orientation (cross of successive vertices > 0)

struct Conn {
    P a, b;
    int adirs = 15, bdirs = 15;         // Avoid::ConnDirFlags (only meaningful for orthogonal routing)
    int type = 1;                       // 1 polyline, 2 orthogonal
    std::vector<P> checkpoints;
};
enum { N_PARAM = 9, N_OPT = 7 };
struct Cfg {
    int flags = 1;                      // Avoid::PolyLineRouting=1, OrthogonalRouting=2
    double param[N_PARAM] = {10, 0, 0, 4000, 0, 0, 0, 4.0, 0};   // library defaults
    bool opt[N_OPT] = {false, true, false, false, true, false, true};
    double p(Avoid::RoutingParameter k) const { return param[(int)k]; }
};
struct Scene {
    Cfg cfg;
    std::vector<Poly> shapes;
    std::vector<Conn> conns;
    void put(Writer &w) const {
        w.tok("scene").i(cfg.flags).nl().tok("params");
        for (double v : cfg.param) w.d(v);
        w.nl().tok("opts");
        for (bool b : cfg.opt) w.i(b);
        w.nl().tok("shapes").i(shapes.size()).nl();
        for (auto &s : shapes) { w.i(s.size()); for (auto &p : s) w.d(p.x).d(p.y); w.nl(); }
        w.tok("conns").i(conns.size()).nl();
        for (auto &c : conns) {
            w.i(c.type).d(c.a.x).d(c.a.y).i(c.adirs).d(c.b.x).d(c.b.y).i(c.bdirs).i(c.checkpoints.size());
            for (auto &p : c.checkpoints) w.d(p.x).d(p.y);
            w.nl();
        }
    }
    static Scene get(Reader &r) {
        Scene s;
        r.expect("scene"); s.cfg.flags = r.i();
        r.expect("params"); for (double &v : s.cfg.param) v = r.d();
        r.expect("opts"); for (bool &b : s.cfg.opt) b = r.i();
        r.expect("shapes"); size_t n = r.i();
        for (size_t i = 0; i < n; i++) { size_t k = r.i(); Poly p; for (size_t j = 0; j < k; j++) { double x = r.d(), y = r.d(); p.push_back({x, y}); } s.shapes.push_back(p); }
        r.expect("conns"); n = r.i();
        for (size_t i = 0; i < n; i++) {
            Conn c; c.type = r.i(); c.a.x = r.d(); c.a.y = r.d(); c.adirs = r.i(); c.b.x = r.d(); c.b.y = r.d(); c.bdirs = r.i();
            size_t k = r.i(); for (size_t j = 0; j < k; j++) { double x = r.d(), y = r.d(); c.checkpoints.push_back({x, y}); }
            s.conns.push_back(c);
        }
        return s;
    }
};

inline Poly rectPoly(double x0, double y0, double x1, double y1) { return Poly{{x1, y0}, {x1, y1}, {x0, y1}, {x0, y0}}; }   // Avoid::Rectangle's vertex order
inline bool isRect(const Poly &p) {
    if (p.size() != 4) return false;
    for (int i = 0; i < 4; i++) { const P &a = p[i], &b = p[(i + 1) % 4]; if (a.x != b.x && a.y != b.y) return false; }
    return true;
}
struct Box { double x0, y0, x1, y1; };
inline Box bbox(const Poly &p) {
    Box b{1e300, 1e300, -1e300, -1e300};
    for (auto &q : p) { b.x0 = std::min(b.x0, q.x); b.y0 = std::min(b.y0, q.y); b.x1 = std::max(b.x1, q.x); b.y1 = std::max(b.y1, q.y); }
    return b;
}

// ------------------------------------------------------------------ geometry (long double)
typedef long double LD;
inline LD crossLD(const P &a, const P &b, const P &c) { return ((LD)b.x - a.x) * ((LD)c.y - a.y) - ((LD)c.x - a.x) * ((LD)b.y - a.y); }
// Does the closed segment pq contain a point whose distance to every edge line of the convex polygon,
// measured inwards, exceeds `margin`?  (margin 0+: passes through the open interior.)
inline bool segEntersConvex(const P &p, const P &q, const Poly &poly, double margin) {
    LD lo = 0, hi = 1;
    size_t n = poly.size();
    for (size_t i = 0; i < n; i++) {
        const P &e0 = poly[i], &e1 = poly[(i + 1) % n];
        LD len = std::hypot((LD)e1.x - e0.x, (LD)e1.y - e0.y);
        if (len == 0) continue;
        LD a = crossLD(e0, e1, p) / len - margin;         // inward distance at t=0 (minus margin)
        LD b = crossLD(e0, e1, q) / len - margin;         // at t=1
        // need a + (b-a) t > 0
        if (a <= 0 && b <= 0) return false;
        if (a > 0 && b > 0) continue;
        LD t = a / (a - b);
        if (a <= 0) lo = std::max(lo, t); else hi = std::min(hi, t);
        if (!(lo < hi)) return false;
    }
    return lo < hi;
}
inline int pointInConvex(const P &q, const Poly &poly, double margin = 0) {   // 2 strictly inside (by > margin), 1 within margin of the border/inside, 0 outside
    LD mn = 1e300;
    size_t n = poly.size();
    for (size_t i = 0; i < n; i++) {
        const P &e0 = poly[i], &e1 = poly[(i + 1) % n];
        LD len = std::hypot((LD)e1.x - e0.x, (LD)e1.y - e0.y);
        if (len == 0) continue;
        mn = std::min(mn, crossLD(e0, e1, q) / len);
    }
    return mn > margin ? 2 : (mn >= -margin ? 1 : 0);
}
inline LD ptSegDist(const P &p, const P &a, const P &b) {
    LD dx = (LD)b.x - a.x, dy = (LD)b.y - a.y, l2 = dx * dx + dy * dy;
    LD t = l2 == 0 ? 0 : (((LD)p.x - a.x) * dx + ((LD)p.y - a.y) * dy) / l2;
    t = std::max((LD)0, std::min((LD)1, t));
    return std::hypot((LD)p.x - (a.x + t * dx), (LD)p.y - (a.y + t * dy));
}
inline bool segsCross(const P &a, const P &b, const P &c, const P &d) {
    LD d1 = crossLD(a, b, c), d2 = crossLD(a, b, d), d3 = crossLD(c, d, a), d4 = crossLD(c, d, b);
    return ((d1 > 0) != (d2 > 0)) && ((d3 > 0) != (d4 > 0)) && d1 != 0 && d2 != 0 && d3 != 0 && d4 != 0;
}
inline LD segSegDist(const P &a, const P &b, const P &c, const P &d) {
    if (segsCross(a, b, c, d)) return 0;
    return std::min(std::min(ptSegDist(a, c, d), ptSegDist(b, c, d)), std::min(ptSegDist(c, a, b), ptSegDist(d, a, b)));
}
inline LD segPolyDist(const P &p, const P &q, const Poly &poly) {      // 0 when the segment touches or enters the polygon
    if (pointInConvex(p, poly) || pointInConvex(q, poly)) return 0;
    LD best = 1e300;
    for (size_t i = 0; i < poly.size(); i++) best = std::min(best, segSegDist(p, q, poly[i], poly[(i + 1) % poly.size()]));
    return best;
}
inline double plen(const std::vector<P> &r) { LD l = 0; for (size_t i = 1; i < r.size(); i++) l += std::hypot((LD)r[i].x - r[i - 1].x, (LD)r[i].y - r[i - 1].y); return (double)l; }
inline std::vector<P> toPts(const Avoid::PolyLine &r) { std::vector<P> v; for (size_t i = 0; i < r.size(); i++) v.push_back({r.ps[i].x, r.ps[i].y}); return v; }
inline std::string ptsStr(const std::vector<P> &r) { std::string s; for (auto &p : r) s += fmt("(%.10g,%.10g)", p.x, p.y); return s; }

// The routing polygon libavoid uses for a non-rectangular shape with a buffer: every edge line moved outwards by b and
// adjacent lines intersected (an unlimited mitre: at an acute vertex the polygon reaches b / sin(angle/2) beyond the vertex).
// Recomputed here for convex polygons whose interior is on the left of every edge (pointInConvex's convention).
inline Poly mitredOffset(const Poly &poly, double b) {
    size_t n = poly.size();
    std::vector<std::pair<LD, LD>> nrm(n);
    for (size_t i = 0; i < n; i++) { const P &e0 = poly[i], &e1 = poly[(i + 1) % n]; LD dx = (LD)e1.x - e0.x, dy = (LD)e1.y - e0.y, len = std::hypot(dx, dy); nrm[i] = {dy / len, -dx / len}; }
    Poly out;
    for (size_t i = 0; i < n; i++) {
        auto &a = nrm[(i + n - 1) % n], &c = nrm[i];
        LD R = 1 + a.first * c.first + a.second * c.second;
        if (R < 1e-12) R = 1e-12;
        out.push_back(P{(double)(poly[i].x + (a.first + c.first) * b / R), (double)(poly[i].y + (a.second + c.second) * b / R)});
    }
    return out;
}

// Validity of one route against the shapes (C03): >=2 points, joins the attachments, no segment through an interior
// of a shape that does not contain one of the two attachment points.  margin: see callers.
inline std::string routeInvalid(const std::vector<P> &r, const P &src, const P &dst, const std::vector<Poly> &shapes, double margin,
                                const std::vector<char> *exempt = nullptr, bool endsMayMove = false, double buf = 0) {
    if (r.size() < 2) return fmt("route has %zu points", r.size());
    if (endsMayMove) { /* nudgeOrthogonalSegmentsConnectedToShapes is documented to nudge the end segments */ }
    else if (!(r.front() == src)) return fmt("route starts at (%.10g,%.10g), source attachment is (%.10g,%.10g)", r.front().x, r.front().y, src.x, src.y);
    if (!endsMayMove && !(r.back() == dst)) return fmt("route ends at (%.10g,%.10g), destination attachment is (%.10g,%.10g)", r.back().x, r.back().y, dst.x, dst.y);
    for (auto &p : r) if (!std::isfinite(p.x) || !std::isfinite(p.y)) return "route has a non-finite coordinate";
    for (size_t s = 0; s < shapes.size(); s++) {
        if (exempt && (*exempt)[s]) continue;
        if (pointInConvex(src, shapes[s]) == 2 || pointInConvex(dst, shapes[s]) == 2) continue;     // shape contains an endpoint
        for (size_t i = 1; i < r.size(); i++)
            if (segEntersConvex(r[i - 1], r[i], shapes[s], margin)) {
                int onVerts = 0;     // known finding F26: a sight line through two vertices of one polygon is taken as free
                for (auto &vtx : shapes[s]) if (ptSegDist(vtx, r[i - 1], r[i]) <= 1e-9) onVerts++;
                // known finding F37: an end point outside the shape but inside its mitred routing polygon makes the router treat the shape as containing it
                bool inZone = false;
                if (buf > 0 && shapes[s].size() >= 3) {
                    Poly z = mitredOffset(shapes[s], buf);
                    inZone = pointInConvex(src, z, 1e-9) || pointInConvex(dst, z, 1e-9);
                    // ... or the crossed shape has a long mitre spike (a mitre vertex more than 3 buffer distances away from its shape
                    // vertex): sight lines past the tip of such a spike are unreliable and the router falls back to the straight line
                    for (size_t q = 0; q < z.size() && !inZone; q++)
                        if (std::hypot((LD)z[q].x - shapes[s][q].x, (LD)z[q].y - shapes[s][q].y) > 3 * buf) inZone = true;
                }
                return fmt("segment (%.10g,%.10g)-(%.10g,%.10g) passes through the interior of shape %zu%s%s", r[i - 1].x, r[i - 1].y, r[i].x, r[i].y, s, onVerts >= 2 ? " [through two of its vertices]" : "", inZone ? " [this shape's mitred buffer polygon contains an end point or has a long spike]" : "");
            }
    }
    return "";
}

// ------------------------------------------------------------------ reference searches
// (1) Euclidean shortest path over the visibility graph of shape corners; with bend penalty `pen`
//     over states (vertex, previous vertex).  tautOnly: bends must wrap the corner they turn at.
struct VisGraph {
    std::vector<P> v;                     // 0 = s, 1 = t, then corners
    std::vector<int> shapeOf, idxIn;      // for corners
    std::vector<std::vector<char>> vis;
    const std::vector<Poly> *shapes;
    VisGraph(const std::vector<Poly> &sh, const P &s, const P &t) : shapes(&sh) {
        v.push_back(s); v.push_back(t); shapeOf = {-1, -1}; idxIn = {-1, -1};
        for (size_t k = 0; k < sh.size(); k++) for (size_t i = 0; i < sh[k].size(); i++) { v.push_back(sh[k][i]); shapeOf.push_back((int)k); idxIn.push_back((int)i); }
        size_t n = v.size();
        vis.assign(n, std::vector<char>(n, 0));
        for (size_t a = 0; a < n; a++) for (size_t b = a + 1; b < n; b++) {
            if (v[a] == v[b]) continue;
            bool ok = true;
            for (auto &poly : sh) if (segEntersConvex(v[a], v[b], poly, 1e-9)) { ok = false; break; }
            vis[a][b] = vis[b][a] = ok;
        }
    }
    bool tautBend(int u, int m, int w) const {
        if (shapeOf[m] < 0) return false;
        const Poly &s = (*shapes)[shapeOf[m]];
        size_t n = s.size();
        const P &pa = s[(idxIn[m] + n - 1) % n], &pb = s[(idxIn[m] + 1) % n];
        LD turn = crossLD(v[u], v[m], v[w]);
        if (turn == 0) return true;   // straight through: not a bend
        // the shape must lie on the inner side of the turn, and neither segment may cut the corner
        LD a1 = crossLD(v[u], v[m], pa), b1 = crossLD(v[u], v[m], pb);
        LD a2 = crossLD(v[m], v[w], pa), b2 = crossLD(v[m], v[w], pb);
        if (turn > 0) return a1 >= 0 && b1 >= 0 && a2 >= 0 && b2 >= 0;
        return a1 <= 0 && b1 <= 0 && a2 <= 0 && b2 <= 0;
    }
    // returns -1 if unreachable
    double shortest(double pen, bool tautOnly, int *bendsOut = nullptr) const {
        size_t n = v.size();
        if (pen == 0 && !tautOnly) {
            std::vector<LD> d(n, 1e300L); std::vector<char> done(n, 0); d[0] = 0;
            for (;;) {
                int u = -1;
                for (size_t i = 0; i < n; i++) if (!done[i] && d[i] < 1e299L && (u < 0 || d[i] < d[u])) u = (int)i;
                if (u < 0) return -1;
                if (u == 1) return (double)d[1];
                done[u] = 1;
                for (size_t w = 0; w < n; w++) if (vis[u][w] && !done[w]) { LD nd = d[u] + std::hypot((LD)v[u].x - v[w].x, (LD)v[u].y - v[w].y); if (nd < d[w]) d[w] = nd; }
            }
        }
        // state = (cur, prev)
        std::vector<LD> d(n * n, 1e300L);
        typedef std::pair<LD, int> QE;
        std::priority_queue<QE, std::vector<QE>, std::greater<QE>> pq;
        auto id = [&](int cur, int prev) { return cur * (int)n + prev; };
        d[id(0, 0)] = 0; pq.push({0, id(0, 0)});
        while (!pq.empty()) {
            auto [c, st] = pq.top(); pq.pop();
            if (c > d[st]) continue;
            int cur = st / (int)n, prev = st % (int)n;
            if (cur == 1) return (double)c;
            for (size_t w = 0; w < n; w++) {
                if (!vis[cur][w] || (int)w == prev) continue;
                LD add = std::hypot((LD)v[cur].x - v[w].x, (LD)v[cur].y - v[w].y);
                if (cur != 0) {
                    LD turn = crossLD(v[prev], v[cur], v[w]);
                    LD dotp = ((LD)v[cur].x - v[prev].x) * ((LD)v[w].x - v[cur].x) + ((LD)v[cur].y - v[prev].y) * ((LD)v[w].y - v[cur].y);
                    if (turn != 0) { add += pen; if (tautOnly && !tautBend(prev, cur, (int)w)) continue; }
                    else if (dotp < 0) { add += 2 * pen; if (tautOnly) continue; }
                }
                int ns = id((int)w, cur);
                if (c + add < d[ns]) { d[ns] = c + add; pq.push({c + add, ns}); }
            }
        }
        return -1;
    }
};

// (2) Does a path with clearance >= delta from every shape exist?  (Sufficient condition for
//     "an obstacle-free path exists"; used only to decide whether a connector must be valid.)
inline bool clearPathExists(const std::vector<Poly> &sh, const P &s, const P &t, double delta) {
    std::vector<P> v{s, t};
    for (auto &poly : sh) {
        size_t n = poly.size();
        for (size_t i = 0; i < n; i++) {
            const P &a = poly[(i + n - 1) % n], &b = poly[i], &c = poly[(i + 1) % n];
            // outward unit normals of the two edges at b (polygon has positive orientation: interior on the left)
            LD l1 = std::hypot((LD)b.x - a.x, (LD)b.y - a.y), l2 = std::hypot((LD)c.x - b.x, (LD)c.y - b.y);
            if (l1 == 0 || l2 == 0) continue;
            LD n1x = ((LD)b.y - a.y) / l1, n1y = -((LD)b.x - a.x) / l1, n2x = ((LD)c.y - b.y) / l2, n2y = -((LD)c.x - b.x) / l2;
            double d = delta * 1.5 + 0.25;
            v.push_back({(double)(b.x + d * (n1x + n2x)), (double)(b.y + d * (n1y + n2y))});
        }
    }
    size_t n = v.size();
    auto clear = [&](const P &a, const P &b) { for (auto &poly : sh) if (segPolyDist(a, b, poly) < delta) return false; return true; };
    std::vector<char> ok(n, 1);
    for (size_t i = 2; i < n; i++) for (auto &poly : sh) if (segPolyDist(v[i], v[i], poly) < delta) { ok[i] = 0; break; }
    std::vector<char> seen(n, 0);
    std::vector<int> st{0};
    seen[0] = 1;
    while (!st.empty()) {
        int u = st.back(); st.pop_back();
        if (u == 1) return true;
        for (size_t w = 0; w < n; w++) if (!seen[w] && ok[w] && clear(v[u], v[w])) { seen[w] = 1; st.push_back((int)w); }
    }
    return false;
}

// (3) Orthogonal optimum on the Hanan grid of rectangle edges and endpoint coordinates:
//     Manhattan length + pen * bends (a reversal counts 2), with endpoint direction masks.
//     Directions: 0 +x (right) 1 +y (down) 2 -x (left) 3 -y (up); Avoid::ConnDirUp=1 Down=2 Left=4 Right=8.
inline int dirFlag(int d) { static const int f[4] = {8, 2, 4, 1}; return f[d]; }
inline double orthOptimum(const std::vector<Poly> &rects, const Conn &c, double pen, int *bendsOut = nullptr, const std::vector<P> *forbidden = nullptr) {
    std::set<double> X{c.a.x, c.b.x}, Y{c.a.y, c.b.y};
    if (forbidden) for (auto &f : *forbidden) { X.insert(f.x); Y.insert(f.y); }
    std::vector<Box> bs;
    for (auto &r : rects) { Box b = bbox(r); bs.push_back(b); X.insert(b.x0); X.insert(b.x1); Y.insert(b.y0); Y.insert(b.y1); }
    std::vector<double> xs(X.begin(), X.end()), ys(Y.begin(), Y.end());
    int nx = (int)xs.size(), ny = (int)ys.size();
    auto blocked = [&](double x0, double y0, double x1, double y1) {       // axis-parallel segment through an open rectangle
        double lx = std::min(x0, x1), hx = std::max(x0, x1), ly = std::min(y0, y1), hy = std::max(y0, y1);
        for (auto &b : bs) {
            if (ly == hy) { if (ly > b.y0 && ly < b.y1 && lx < b.x1 && hx > b.x0) return true; }
            else { if (lx > b.x0 && lx < b.x1 && ly < b.y1 && hy > b.y0) return true; }
        }
        return false;
    };
    auto id = [&](int i, int j, int d) { return (i * ny + j) * 4 + d; };
    std::vector<double> dist((size_t)nx * ny * 4, 1e300);
    std::vector<int> nb((size_t)nx * ny * 4, 0);
    typedef std::pair<double, int> QE;
    std::priority_queue<QE, std::vector<QE>, std::greater<QE>> pq;
    int si = (int)(std::find(xs.begin(), xs.end(), c.a.x) - xs.begin()), sj = (int)(std::find(ys.begin(), ys.end(), c.a.y) - ys.begin());
    int ti = (int)(std::find(xs.begin(), xs.end(), c.b.x) - xs.begin()), tj = (int)(std::find(ys.begin(), ys.end(), c.b.y) - ys.begin());
    static const int di[4] = {1, 0, -1, 0}, dj[4] = {0, 1, 0, -1};
    // start: virtual state per allowed initial heading
    for (int d = 0; d < 4; d++) if (c.adirs & dirFlag(d)) {
        int ni = si + di[d], nj = sj + dj[d];
        if (ni < 0 || nj < 0 || ni >= nx || nj >= ny) continue;
        if (blocked(xs[si], ys[sj], xs[ni], ys[nj])) continue;
        if (forbidden && !(ni == ti && nj == tj)) { bool f = false; for (auto &q : *forbidden) if (q.x == xs[ni] && q.y == ys[nj]) f = true; if (f) continue; }
        double nc = std::fabs(xs[ni] - xs[si]) + std::fabs(ys[nj] - ys[sj]);
        if (nc < dist[id(ni, nj, d)]) { dist[id(ni, nj, d)] = nc; nb[id(ni, nj, d)] = 0; pq.push({nc, id(ni, nj, d)}); }
    }
    while (!pq.empty()) {
        auto [cst, u] = pq.top(); pq.pop();
        if (cst > dist[u]) continue;
        int d = u % 4, j = (u / 4) % ny, i = (u / 4) / ny;
        if (i == ti && j == tj && (c.bdirs & dirFlag((d + 2) % 4))) { if (bendsOut) *bendsOut = nb[u]; return cst; }
        for (int nd = 0; nd < 4; nd++) {
            int turnBends = nd == d ? 0 : ((nd + 2) % 4 == d ? 2 : 1);
            int ni = i + di[nd], nj = j + dj[nd];
            if (ni < 0 || nj < 0 || ni >= nx || nj >= ny) continue;
            if (i == ti && j == tj) { /* passing through the target without stopping is allowed */ }
            if (blocked(xs[i], ys[j], xs[ni], ys[nj])) continue;
            if (forbidden && !(ni == ti && nj == tj)) { bool f = false; for (auto &q : *forbidden) if (q.x == xs[ni] && q.y == ys[nj]) f = true; if (f) continue; }
            double nc = cst + turnBends * pen + std::fabs(xs[ni] - xs[i]) + std::fabs(ys[nj] - ys[j]);
            int v = id(ni, nj, nd);
            if (nc < dist[v] - 1e-12) { dist[v] = nc; nb[v] = nb[u] + turnBends; pq.push({nc, v}); }
        }
    }
    return -1;
}
// cost of an orthogonal route as the router's search counts it
inline double orthCost(const std::vector<P> &r, double pen, int *bendsOut = nullptr) {
    std::vector<P> p;
    for (auto &q : r) if (p.empty() || !(p.back() == q)) p.push_back(q);
    double l = 0; int b = 0;
    for (size_t i = 1; i < p.size(); i++) {
        l += std::fabs(p[i].x - p[i - 1].x) + std::fabs(p[i].y - p[i - 1].y);
        if (i >= 2) {
            bool h1 = p[i - 1].y == p[i - 2].y, h2 = p[i].y == p[i - 1].y;
            if (h1 != h2) b++;
            else { double d1 = h1 ? p[i - 1].x - p[i - 2].x : p[i - 1].y - p[i - 2].y, d2 = h2 ? p[i].x - p[i - 1].x : p[i].y - p[i - 1].y; if (d1 * d2 < 0) b += 2; }
        }
    }
    if (bendsOut) *bendsOut = b;
    return l + pen * b;
}
inline double polyCost(const std::vector<P> &r, double pen, int *bendsOut = nullptr) {
    std::vector<P> p;
    for (auto &q : r) if (p.empty() || !(p.back() == q)) p.push_back(q);
    int b = 0;
    for (size_t i = 2; i < p.size(); i++) {
        LD turn = crossLD(p[i - 2], p[i - 1], p[i]);
        LD dotp = ((LD)p[i - 1].x - p[i - 2].x) * ((LD)p[i].x - p[i - 1].x) + ((LD)p[i - 1].y - p[i - 2].y) * ((LD)p[i].y - p[i - 1].y);
        if (turn != 0) b++; else if (dotp < 0) b += 2;
    }
    if (bendsOut) *bendsOut = b;
    return plen(p) + pen * b;
}

// ------------------------------------------------------------------ building a router from a scene
struct Built {
    Avoid::Router *router = nullptr;
    std::vector<Avoid::ShapeRef *> shapes;
    std::vector<Avoid::ConnRef *> conns;
    bool abandoned = false;
    ~Built() { if (!abandoned) delete router; }
    void abandon() { abandoned = true; }      // after a library assertion the router's state is undefined: leak it
};
inline Avoid::Polygon toPolygon(const Poly &p) {
    Avoid::Polygon poly((int)p.size());
    for (size_t i = 0; i < p.size(); i++) poly.ps[i] = Avoid::Point(p[i].x, p[i].y);
    return poly;
}
inline Avoid::ShapeRef *addShape(Avoid::Router *r, const Poly &p) {
    if (isRect(p)) { Box b = bbox(p); Avoid::Rectangle rr(Avoid::Point(b.x0, b.y0), Avoid::Point(b.x1, b.y1)); return new Avoid::ShapeRef(r, rr); }
    Avoid::Polygon poly = toPolygon(p);
    return new Avoid::ShapeRef(r, poly);
}
inline void configure(Avoid::Router *r, const Cfg &cfg) {
    for (int k = 0; k < N_PARAM; k++) r->setRoutingParameter((Avoid::RoutingParameter)k, cfg.param[k]);
    for (int k = 0; k < N_OPT; k++) r->setRoutingOption((Avoid::RoutingOption)k, cfg.opt[k]);
}
inline Avoid::ConnRef *addConn(Avoid::Router *r, const Conn &c) {
    Avoid::ConnEnd a(Avoid::Point(c.a.x, c.a.y), (Avoid::ConnDirFlags)c.adirs), b(Avoid::Point(c.b.x, c.b.y), (Avoid::ConnDirFlags)c.bdirs);
    Avoid::ConnRef *cr = new Avoid::ConnRef(r, a, b);
    cr->setRoutingType(c.type == 2 ? Avoid::ConnType_Orthogonal : Avoid::ConnType_PolyLine);
    if (!c.checkpoints.empty()) {
        std::vector<Avoid::Checkpoint> cps;
        for (auto &p : c.checkpoints) cps.push_back(Avoid::Checkpoint(Avoid::Point(p.x, p.y)));
        cr->setRoutingCheckpoints(cps);
    }
    return cr;
}
inline void build(const Scene &s, Built &b) {
    b.router = new Avoid::Router(s.cfg.flags);
    configure(b.router, s.cfg);
    for (auto &p : s.shapes) b.shapes.push_back(addShape(b.router, p));
    for (auto &c : s.conns) b.conns.push_back(addConn(b.router, c));
}

// ------------------------------------------------------------------ generators (lattice scenes)
inline bool boxesApart(const Box &a, const Box &b, double gap) {    // gap 0: interiors disjoint (touching allowed)
    return a.x1 + gap <= b.x0 || b.x1 + gap <= a.x0 || a.y1 + gap <= b.y0 || b.y1 + gap <= a.y0;
}
inline Poly genConvex(int x0, int y0, int w, int h) {
    // hull of random lattice points in the box, library orientation
    int k = irange(3, 8);
    std::vector<P> pts;
    for (int i = 0; i < k; i++) pts.push_back({(double)(x0 + irange(0, w)), (double)(y0 + irange(0, h))});
    std::sort(pts.begin(), pts.end(), [](const P &a, const P &b) { return a.x < b.x || (a.x == b.x && a.y < b.y); });
    pts.erase(std::unique(pts.begin(), pts.end()), pts.end());
    if (pts.size() < 3) return Poly();
    std::vector<P> hl(2 * pts.size());
    size_t m = 0;
    auto cr = [](const P &o, const P &a, const P &b) { return (a.x - o.x) * (b.y - o.y) - (a.y - o.y) * (b.x - o.x); };
    for (size_t i = 0; i < pts.size(); i++) { while (m >= 2 && cr(hl[m - 2], hl[m - 1], pts[i]) <= 0) m--; hl[m++] = pts[i]; }
    for (size_t i = pts.size() - 1, t = m + 1; i > 0; i--) { while (m >= t && cr(hl[m - 2], hl[m - 1], pts[i - 1]) <= 0) m--; hl[m++] = pts[i - 1]; }
    hl.resize(m > 1 ? m - 1 : m);
    if (hl.size() < 3) return Poly();
    return hl;
}
// shapes: `gap` lattice units apart (0 = may touch); polyProb/100 chance of a non-rectangular convex polygon
inline void genShapes(Scene &s, int maxShapes, int span, int gap, int polyProb, bool snapTight) {
    int k = sized(0, maxShapes);
    std::vector<Box> boxes;
    for (int i = 0, tries = 0; i < k && tries < 400; tries++) {
        int w = irange(1, span / 2 + 1), h = irange(1, span / 2 + 1), x0 = irange(0, span), y0 = irange(0, span);
        if (snapTight && !boxes.empty() && coin(1, 2)) {      // butt against an existing shape / align edges
            const Box &o = boxes[irange(0, (int)boxes.size() - 1)];
            switch (irange(0, 3)) { case 0: x0 = (int)o.x1; break; case 1: x0 = (int)o.x0 - w; break; case 2: y0 = (int)o.y1; break; default: y0 = (int)o.y0 - h; }
            if (coin(1, 2)) { if (coin(1, 2)) y0 = (int)o.y0; else x0 = (int)o.x0; }
        }
        Poly p = irange(0, 99) < polyProb ? genConvex(x0, y0, w, h) : rectPoly(x0, y0, x0 + w, y0 + h);
        if (p.size() < 3) continue;
        Box b = bbox(p);
        if (b.x1 <= b.x0 || b.y1 <= b.y0) continue;
        bool ok = true;
        for (auto &o : boxes) if (!boxesApart(b, o, gap)) { ok = false; break; }
        if (!ok) continue;
        boxes.push_back(b); s.shapes.push_back(p); i++;
    }
}
// a lattice point at distance >= clear from every shape's bounding box
inline bool genFreePoint(const Scene &s, int span, double clear, P &out) {
    for (int tries = 0; tries < 60; tries++) {
        P p{(double)irange(-4, span * 3 / 2 + 4), (double)irange(-4, span * 3 / 2 + 4)};
        bool ok = true;
        for (auto &sh : s.shapes) { Box b = bbox(sh); if (p.x > b.x0 - clear && p.x < b.x1 + clear && p.y > b.y0 - clear && p.y < b.y1 + clear) { ok = false; break; } }
        if (ok) { out = p; return true; }
    }
    return false;
}

} // namespace sc
