// Common harness runtime: case (de)serialisation, statistics, rapidcheck glue,
// replay entry point.  See DESIGN.md section 2.
#pragma once
#include <rapidcheck.h>
#include <cstdint>
#include <cstdio>
#include <cstdarg>
#include <cstdlib>
#include <cstring>
#include <cmath>
#include <string>
#include <vector>
#include <map>
#include <set>
#include <unordered_set>
#include <sstream>
#include <fstream>
#include <functional>
#include <algorithm>
#include <exception>
#include <chrono>
#include "libvpsc/assertions.h"
#include "libvpsc/rectangle.h"

extern "C" void __sanitizer_set_death_callback(void (*)(void)) __attribute__((weak));

namespace verif {

// ------------------------------------------------------------------ case text
struct Writer {
    std::ostringstream os;
    Writer &tok(const std::string &s) { os << s << ' '; return *this; }
    Writer &i(long long v) { os << v << ' '; return *this; }
    Writer &d(double v) { char b[40]; snprintf(b, sizeof b, "%.17g", v); os << b << ' '; return *this; }
    Writer &nl() { os << '\n'; return *this; }
    std::string str() const { return os.str(); }
};
struct Reader {
    std::istringstream is;
    explicit Reader(const std::string &s) : is(s) {}
    std::string tok() { std::string s; if (!(is >> s)) throw std::runtime_error("case file truncated"); return s; }
    long long i() { return std::stoll(tok()); }
    double d() { return std::strtod(tok().c_str(), nullptr); }
    void expect(const char *s) { std::string t = tok(); if (t != s) throw std::runtime_error("case file: expected '" + std::string(s) + "' got '" + t + "'"); }
    bool eof() { is >> std::ws; return is.eof(); }
};

// ------------------------------------------------------------------ verdict
struct Verdict {
    bool ok = true;
    std::string msg;            // why it failed (the offending values)
    std::string sig;            // mechanistic signature, matched against known findings
    bool nontrivial = false;
    bool aborted = false;       // library CriticalFailure: not judged here (DESIGN 2.6)
    bool inconclusive = false;  // oracle could not certify its own answer
    std::vector<std::string> classes;
    std::vector<std::string> excluded;   // known-finding classes excluded by construction
    void fail(const std::string &m, const std::string &s = "") { if (ok) { ok = false; msg = m; sig = s; } }
    void cls(const std::string &c) { classes.push_back(c); }
};

inline std::string fmt(const char *f, ...) __attribute__((format(printf, 1, 2)));
inline std::string fmt(const char *f, ...) {
    char b[2048]; va_list ap; va_start(ap, f); vsnprintf(b, sizeof b, f, ap); va_end(ap); return b;
}

// ------------------------------------------------------------------ statistics
struct Stats {
    uint64_t evaluations = 0, aborted = 0, inconclusive = 0;
    uint64_t distinct_by_construction = 0;   // exhaustive enumerations: every tuple is distinct, no hash set needed
    std::unordered_set<uint64_t> nontrivial;
    std::map<std::string, uint64_t> classes, excluded;
    std::vector<std::string> samples;
    std::vector<std::string> exhaustive;
    std::string dir;
    std::set<std::string> known_sigs;
    bool failed_once = false;
    long shrink_evals = 0;
    std::chrono::steady_clock::time_point first_failure;
    bool replaying = false;
    uint64_t expected = 0, prop_start = 0, prop_samples = 0;   // for spreading the samples over the run
};
inline Stats &S() { static Stats s; return s; }

inline uint64_t fnv(const std::string &s) {
    uint64_t h = 1469598103934665603ull;
    for (unsigned char c : s) { h ^= c; h *= 1099511628211ull; }
    return h;
}
inline std::string jesc(const std::string &s) {
    std::string o;
    for (unsigned char c : s) {
        if (c == '"' || c == '\\') { o += '\\'; o += c; }
        else if (c == '\n') o += "\\n";
        else if (c < 32) o += ' ';
        else o += c;
    }
    return o;
}
inline void write_file(const std::string &path, const std::string &body) {
    FILE *f = fopen(path.c_str(), "w");
    if (!f) return;
    fwrite(body.data(), 1, body.size(), f);
    fclose(f);
}
inline void flush_stats() {
    Stats &s = S();
    if (s.dir.empty() || s.replaying) return;
    std::ostringstream o;
    o << "{\"evaluations\":" << s.evaluations << ",\"aborted_by_library_assert\":" << s.aborted
      << ",\"oracle_inconclusive\":" << s.inconclusive << ",\"distinct_nontrivial\":" << s.nontrivial.size() << ",\"distinct_by_construction\":" << s.distinct_by_construction
      << ",\"classes\":{";
    bool first = true;
    for (auto &kv : s.classes) { o << (first ? "" : ",") << '"' << jesc(kv.first) << "\":" << kv.second; first = false; }
    o << "},\"excluded\":{";
    first = true;
    for (auto &kv : s.excluded) { o << (first ? "" : ",") << '"' << jesc(kv.first) << "\":" << kv.second; first = false; }
    o << "},\"exhaustive\":[";
    first = true;
    for (auto &x : s.exhaustive) { o << (first ? "" : ",") << '"' << jesc(x) << '"'; first = false; }
    o << "],\"samples\":[";
    first = true;
    for (auto &x : s.samples) { o << (first ? "" : ",") << '"' << jesc(x) << '"'; first = false; }
    o << "]}\n";
    write_file(s.dir + "/stats.json", o.str());
    FILE *f = fopen((s.dir + "/nontrivial.u64").c_str(), "wb");
    if (f) {
        std::vector<uint64_t> v(s.nontrivial.begin(), s.nontrivial.end());
        if (!v.empty()) fwrite(v.data(), 8, v.size(), f);
        fclose(f);
    }
}

// ------------------------------------------------------------------ evaluating one case
// eval() must be a pure function of the case.  Everything thrown out of it that is
// not handled by the evaluator itself is classified here.
inline Verdict guarded(const std::function<Verdict()> &eval) {
    Verdict v;
    // global state of the libraries is reset before every case (an assertion thrown inside libtopology's
    // NoIntersection check, for one, leaves the rectangle borders modified)
    vpsc::Rectangle::setXBorder(0);
    vpsc::Rectangle::setYBorder(0);
    try {
        v = eval();
    } catch (vpsc::CriticalFailure &f) {
        v = Verdict();
        v.aborted = true;
        v.msg = "library assertion: " + f.what();
        // signature = file name + asserted expression (line numbers shift with unrelated edits)
        std::string w = f.what(), expr, file;
        size_t a = w.find("expression: "), b = w.find("\n", a == std::string::npos ? 0 : a);
        if (a != std::string::npos) expr = w.substr(a + 12, b - a - 12);
        size_t c = w.find(" of ", b == std::string::npos ? 0 : b), d = w.find("\n", c == std::string::npos ? 0 : c);
        if (c != std::string::npos) file = w.substr(c + 4, d - c - 4);
        size_t sl = file.rfind('/');
        if (sl != std::string::npos) file = file.substr(sl + 1);
        v.sig = "assert:" + file + ":" + expr;
    } catch (std::exception &e) {
        v = Verdict();
        std::string w = e.what(), k;
        for (char ch : w) { if (k.size() >= 40) break; k += isalnum((unsigned char)ch) ? ch : '-'; }
        v.fail(std::string("uncaught std::exception: ") + w, "exception:" + k);
    } catch (const char *e) {
        v = Verdict();
        v.fail(std::string("uncaught char* exception: ") + e, "uncaught-exception");
    } catch (...) {
        v = Verdict();
        v.fail("uncaught exception of unknown type", "uncaught-exception");
    }
    return v;
}

// Record one generated case.  Returns true when the property holds (or the case
// is excluded); writes pending.case and returns false on a failure.
inline bool record(const std::string &prop, const std::string &body, const std::function<Verdict()> &eval,
                   bool abort_is_failure = false) {
    Stats &s = S();
    std::string text = "prop " + prop + "\n" + body;
    if (!text.empty() && text.back() != '\n') text += '\n';
    // bound the shrink phase (it only affects how small the reproduction gets, never the verdict): 3000 evaluations or 90 s
    if (s.failed_once) {
        double since = std::chrono::duration<double>(std::chrono::steady_clock::now() - s.first_failure).count();
        if (++s.shrink_evals > 3000 || since > 90) return true;
    }
    if (!s.dir.empty()) write_file(s.dir + "/current.case", text);
    Verdict v = guarded(eval);
    // A library assertion on a generated (valid) input means the call did not deliver a result at all: it fails this
    // property too, unless the assertion site is a known finding (those are owned by C15 and only counted here).
    (void)abort_is_failure;
    if (v.aborted && !s.known_sigs.count(v.sig)) v.ok = false;
    if (v.aborted && v.ok && !s.failed_once) {
        // not judged here (DESIGN 2.6); kept for C15, which owns library assertions
        std::string m = v.msg; for (char &ch : m) if (ch == '\n') ch = ' ';
        fprintf(stderr, "ABORTED: %s\n", m.c_str());
        if (s.aborted < 5 && !s.dir.empty()) write_file(s.dir + "/aborted-" + std::to_string(s.aborted) + ".case", text);
    }
    bool known = !v.ok && !v.aborted && !v.sig.empty() && s.known_sigs.count(v.sig);
    if (!s.failed_once) {
        s.evaluations++;
        if (v.aborted) s.aborted++;
        if (v.inconclusive) s.inconclusive++;
        for (auto &c : v.classes) s.classes[c]++;
        for (auto &c : v.excluded) s.excluded[c]++;
        if (known) {
            // keep the first cases matched by each known-finding signature: the driver needs one as the reproduction
            // when a signature fires far more often than the recorded rate of its finding
            uint64_t &k = s.excluded["known:" + v.sig];
            if (k < 2 && !s.dir.empty()) { std::string fn = v.sig; for (char &ch : fn) if (!isalnum((unsigned char)ch) && ch != '-') ch = '_'; write_file(s.dir + "/known-" + fn + "-" + std::to_string(k) + ".case", text); }
            k++;
        }
        if (v.nontrivial && !v.aborted) {
            // samples: one each from about 30%, 60% and 90% of the way through the run
            bool fresh = s.nontrivial.insert(fnv(text)).second;
            uint64_t done = s.evaluations - s.prop_start;
            if (fresh && s.prop_samples < 2 && (s.expected == 0 || done * 10 >= s.expected * (3 * (s.prop_samples + 1)))) {
                s.samples.push_back(text.size() > 1500 ? text.substr(0, 1500) + " ...[truncated]" : text);
                s.prop_samples++;
            }
            s.classes["nontrivial"]++;
        }
    }
    if (v.ok || known) return true;
    if (!s.failed_once) s.first_failure = std::chrono::steady_clock::now();
    s.failed_once = true;
    if (!s.dir.empty()) write_file(s.dir + "/pending.case", text);
    fprintf(stderr, "FAIL prop=%s: %s\n", prop.c_str(), v.msg.c_str());
    if (!v.sig.empty()) fprintf(stderr, "SIGNATURE: %s\n", v.sig.c_str());
    return false;
}

// ------------------------------------------------------------------ property table
struct Prop {
    std::string name;
    double weight;                                   // share of max_success
    std::function<bool()> body;                      // one generated evaluation (uses *rc::gen, calls record)
    std::function<Verdict(Reader &)> replay;         // parse a case body and evaluate it
    std::function<bool()> exhaustive;                // optional: plain enumeration, returns false on failure
};

struct Params { uint64_t seed = 1; int cases = 100; int size = 100; int discard = 50; };
inline Params parse_params() {
    Params p;
    const char *e = getenv("RC_PARAMS");
    if (!e) return p;
    std::istringstream is(e);
    std::string kv;
    while (is >> kv) {
        auto eq = kv.find('=');
        if (eq == std::string::npos) continue;
        std::string k = kv.substr(0, eq), v = kv.substr(eq + 1);
        if (k == "seed") p.seed = std::stoull(v);
        else if (k == "max_success") p.cases = std::stoi(v);
        else if (k == "max_size") p.size = std::stoi(v);
        else if (k == "max_discard_ratio") p.discard = std::stoi(v);
    }
    return p;
}

inline int tier_thorough() { const char *t = getenv("VERIF_TIER"); return t && !strcmp(t, "thorough"); }
inline void shard(int &idx, int &n) {
    idx = 0; n = 1;
    const char *e = getenv("VERIF_SHARD");
    if (e) sscanf(e, "%d/%d", &idx, &n);
    if (n < 1) n = 1;
}

inline int run_main(int argc, char **argv, std::vector<Prop> props) {
    Stats &s = S();
    if (argc >= 3 && !strcmp(argv[1], "--replay")) {
        s.replaying = true;
        std::ifstream f(argv[2]);
        if (!f) { fprintf(stderr, "cannot open %s\n", argv[2]); return 3; }
        std::stringstream ss; ss << f.rdbuf();
        Reader r(ss.str());
        r.expect("prop");
        std::string name = r.tok();
        for (auto &p : props) {
            if (p.name != name) continue;
            Verdict v = guarded([&] { return p.replay(r); });
            if (v.aborted) { printf("ABORTED by %s\n", v.msg.c_str()); printf("SIGNATURE: %s\n", v.sig.c_str()); return 4; }
            if (v.ok) { printf("replay of %s: property holds%s\n", name.c_str(), v.inconclusive ? " (oracle inconclusive)" : ""); return 0; }
            printf("replay of %s: FAIL %s\n", name.c_str(), v.msg.c_str());
            if (!v.sig.empty()) printf("SIGNATURE: %s\n", v.sig.c_str());
            return 1;
        }
        fprintf(stderr, "no property named %s in this harness\n", name.c_str());
        return 3;
    }
    const char *d = getenv("VERIF_DIR");
    s.dir = d ? d : ".";
    if (const char *k = getenv("VERIF_KNOWN_SIGS")) {
        std::string ks = k, cur;
        for (char c : ks + ",") { if (c == ',') { if (!cur.empty()) s.known_sigs.insert(cur); cur.clear(); } else cur += c; }
    }
    if (__sanitizer_set_death_callback) __sanitizer_set_death_callback(flush_stats);
    Params pr = parse_params();
    // VERIF_PROPS: comma separated names or prefixes ("C01.") selecting the properties to run
    std::vector<std::string> sel;
    if (const char *k = getenv("VERIF_PROPS")) {
        std::string ks = k, cur;
        for (char c : ks + ",") { if (c == ',') { if (!cur.empty()) sel.push_back(cur); cur.clear(); } else cur += c; }
    }
    bool all_ok = true;
    for (auto &p : props) {
        bool wanted = sel.empty();
        for (auto &x : sel) if (p.name.compare(0, x.size(), x) == 0) wanted = true;
        if (!wanted) continue;
        if (p.exhaustive) {
            int si, sn; shard(si, sn);
            bool ok = p.exhaustive();
            flush_stats();
            if (!ok) { all_ok = false; break; }
        }
        if (!p.body) continue;
        rc::detail::TestParams tp;
        tp.seed = pr.seed ^ fnv(p.name);
        tp.maxSuccess = std::max(1, (int)std::lround(pr.cases * p.weight));
        tp.maxSize = pr.size;
        tp.maxDiscardRatio = pr.discard;
        rc::detail::TestMetadata md;
        md.id = p.name; md.description = p.name;
        fprintf(stderr, "- %s (seed=%llu cases=%d size=%d)\n", p.name.c_str(), (unsigned long long)tp.seed, tp.maxSuccess, tp.maxSize);
        auto body = p.body;
        s.expected = tp.maxSuccess; s.prop_start = s.evaluations; s.prop_samples = 0;
        const auto result = rc::detail::checkTestable([body] { RC_ASSERT(body()); }, md, tp);
        rc::detail::printResultMessage(result, std::cerr);
        std::cerr << std::endl;
        flush_stats();
        if (!result.template is<rc::detail::SuccessResult>()) {
            // a GaveUp result (too many discards) is a broken generator, not a violation
            if (result.template is<rc::detail::GaveUpResult>()) { fprintf(stderr, "GAVE UP: generator discards too much\n"); return 5; }
            all_ok = false;
            break;
        }
    }
    flush_stats();
    return all_ok ? 0 : 1;
}

// ------------------------------------------------------------------ generator helpers
// inRange collapses at small sizes; always generate ranges at full size.
inline int irange(int lo, int hi) { return *rc::gen::resize(100, rc::gen::inRange(lo, hi + 1)); }
inline bool coin(int num, int den) { return irange(0, den - 1) < num; }
inline int gsize() { return *rc::gen::withSize([](int s) { return rc::gen::just(s); }); }
// a count that grows with the rapidcheck size: lo .. lo + (hi-lo)*size/100
inline int sized(int lo, int hi) {
    int s = std::min(100, gsize());
    int top = lo + (int)std::lround((hi - lo) * (s / 100.0));
    return irange(lo, std::max(lo, top));
}
template <class T> const T &pick(const std::vector<T> &v) { return v[irange(0, (int)v.size() - 1)]; }

} // namespace verif
