// C18: libdialect separation-constraint transforms commute with geometry and compose like
// the symmetry group of the square; (a,b) / negated (b,a) storage is equivalent; TGLF round-trips.
#include "common/verif.h"
#include "libdialect/constraints.h"
#include "libdialect/graphs.h"
#include "libdialect/io.h"
#include "libvpsc/rectangle.h"
#include "libvpsc/variable.h"
#include "libvpsc/constraint.h"

using namespace verif;
using namespace dialect;

namespace {
struct Place { double x1, y1, w1, h1, x2, y2, w2, h2; };

// ---------------------------------------------------------------- what the library's constraints say about a placement
// (src = first node, tgt = second node)
bool holdsLib(SepPair &sp, const Place &p) {
    ColaGraphRep cgr;
    vpsc::Rectangle r1(p.x1 - p.w1 / 2, p.x1 + p.w1 / 2, p.y1 - p.h1 / 2, p.y1 + p.h1 / 2), r2(p.x2 - p.w2 / 2, p.x2 + p.w2 / 2, p.y2 - p.h2 / 2, p.y2 + p.h2 / 2);
    cgr.rs = {&r1, &r2};
    cgr.id2ix = {{sp.src, 0}, {sp.tgt, 1}};
    SepMatrix m((Graph *)nullptr);
    bool ok = true;
    for (int d = 0; d < 2; d++) {
        vpsc::Variable v1(0), v2(1);
        vpsc::Variables vs{&v1, &v2};
        vpsc::Constraint *c = sp.generateSeparationConstraint((vpsc::Dim)d, cgr, &m, vs);
        if (!c) continue;
        double pos[2] = {d == 0 ? p.x1 : p.y1, d == 0 ? p.x2 : p.y2};
        double slack = pos[c->right->id] - pos[c->left->id] - c->gap;
        if (c->equality ? std::fabs(slack) > 1e-9 : slack < -1e-9) ok = false;
        delete c;
    }
    return ok;
}
// ---------------------------------------------------------------- what constraints.h says a constraint means
// "node 2 lies in direction sd of node 1 by at least / exactly gap (centre or boundary gap); cardinal directions also align"
bool holdsRef(GapType gt, SepDir sd, SepType st, double gap, const Place &p) {
    bool xaxis = sd == SepDir::EAST || sd == SepDir::WEST || sd == SepDir::RIGHT || sd == SepDir::LEFT;
    bool positive = sd == SepDir::EAST || sd == SepDir::SOUTH || sd == SepDir::RIGHT || sd == SepDir::DOWN;
    bool cardinal = sd == SepDir::EAST || sd == SepDir::SOUTH || sd == SepDir::WEST || sd == SepDir::NORTH;
    double along = xaxis ? p.x2 - p.x1 : p.y2 - p.y1;
    if (!positive) along = -along;
    if (gt == GapType::BDRY) along -= xaxis ? (p.w1 + p.w2) / 2 : (p.h1 + p.h2) / 2;
    bool sep = st == SepType::EQ ? std::fabs(along - gap) <= 1e-9 : along >= gap - 1e-9;
    bool align = !cardinal || std::fabs(xaxis ? p.y2 - p.y1 : p.x2 - p.x1) <= 1e-9;
    return sep && align;
}
// ---------------------------------------------------------------- the eight symmetries of the square (y points down)
struct Mat { int a, b, c, d; };     // (x,y) -> (a x + b y, c x + d y)
bool operator==(const Mat &l, const Mat &r) { return l.a == r.a && l.b == r.b && l.c == r.c && l.d == r.d; }
const Mat IDENT{1, 0, 0, 1};
Mat matOf(SepTransform t) {
    switch (t) {
        case SepTransform::ROTATE90CW: return {0, -1, 1, 0};
        case SepTransform::ROTATE90ACW: return {0, 1, -1, 0};
        case SepTransform::ROTATE180: return {-1, 0, 0, -1};
        case SepTransform::FLIPV: return {-1, 0, 0, 1};
        case SepTransform::FLIPH: return {1, 0, 0, -1};
        case SepTransform::FLIPMD: return {0, 1, 1, 0};
        case SepTransform::FLIPOD: return {0, -1, -1, 0};
    }
    return IDENT;
}
Mat mul(const Mat &l, const Mat &r) { return {l.a * r.a + l.b * r.c, l.a * r.b + l.b * r.d, l.c * r.a + l.d * r.c, l.c * r.b + l.d * r.d}; }   // l after r
Place apply(const Mat &m, const Place &p) {
    Place q;
    q.x1 = m.a * p.x1 + m.b * p.y1; q.y1 = m.c * p.x1 + m.d * p.y1;
    q.x2 = m.a * p.x2 + m.b * p.y2; q.y2 = m.c * p.x2 + m.d * p.y2;
    bool swap = m.a == 0;
    q.w1 = swap ? p.h1 : p.w1; q.h1 = swap ? p.w1 : p.h1; q.w2 = swap ? p.h2 : p.w2; q.h2 = swap ? p.w2 : p.h2;
    return q;
}
const SepTransform ALLT[7] = {SepTransform::ROTATE90CW, SepTransform::ROTATE90ACW, SepTransform::ROTATE180, SepTransform::FLIPV, SepTransform::FLIPH, SepTransform::FLIPMD, SepTransform::FLIPOD};
const char *TN[7] = {"ROTATE90CW", "ROTATE90ACW", "ROTATE180", "FLIPV", "FLIPH", "FLIPMD", "FLIPOD"};
const char *SDN[8] = {"EAST", "SOUTH", "WEST", "NORTH", "RIGHT", "DOWN", "LEFT", "UP"};

std::string stateStr(const SepPair &s) {
    return fmt("x:(%s,%d,%s%g) y:(%s,%d,%s%g)", s.xgt == GapType::BDRY ? "B" : "C", (int)s.xst, std::signbit(s.xgap) ? "-" : "+", std::fabs(s.xgap),
               s.ygt == GapType::BDRY ? "B" : "C", (int)s.yst, std::signbit(s.ygap) ? "-" : "+", std::fabs(s.ygap));
}
bool sameState(const SepPair &l, const SepPair &r) {
    // gaps of an absent constraint are meaningless
    bool x = l.xst == r.xst && (l.xst == SepType::NONE || (l.xgt == r.xgt && l.xgap == r.xgap && std::signbit(l.xgap) == std::signbit(r.xgap)));
    bool y = l.yst == r.yst && (l.yst == SepType::NONE || (l.ygt == r.ygt && l.ygap == r.ygap && std::signbit(l.ygap) == std::signbit(r.ygap)));
    return x && y;
}

struct Row { int gt, sd, st; double gap; int gt2, sd2, st2; double gap2; bool second; int sizes; };
std::string rowStr(const Row &r) { Writer w; w.tok("row").i(r.gt).i(r.sd).i(r.st).d(r.gap).i(r.second).i(r.gt2).i(r.sd2).i(r.st2).d(r.gap2).i(r.sizes); return w.str(); }
const double SIZES[3][4] = {{10, 20, 30, 40}, {6, 6, 6, 6}, {25, 5, 3, 15}};

std::vector<Place> placements(const Row &r) {
    // 64+ placements of node 2 around node 1, straddling the boundary of satisfaction
    const double *z = SIZES[r.sizes];
    std::vector<double> offs;
    for (double g : {r.gap, r.second ? r.gap2 : 0.0}) {
        double g0 = std::fabs(g);
        for (double half : {0.0, (z[0] + z[2]) / 2, (z[1] + z[3]) / 2}) for (double e : {-1.0, 0.0, 1.0}) { offs.push_back(g0 + half + e); offs.push_back(-(g0 + half + e)); }
    }
    offs.push_back(0);
    std::sort(offs.begin(), offs.end());
    offs.erase(std::unique(offs.begin(), offs.end()), offs.end());
    std::vector<Place> ps;
    for (double dx : offs) for (double dy : offs) ps.push_back({7, -3, z[0], z[1], 7 + dx, -3 + dy, z[2], z[3]});
    return ps;
}

Verdict eval_row(const Row &r) {
    Verdict v;
    SepPair sp;
    sp.src = 1; sp.tgt = 2;
    sp.addSep((GapType)r.gt, (SepDir)r.sd, (SepType)r.st, r.gap);
    if (r.second) sp.addSep((GapType)r.gt2, (SepDir)r.sd2, (SepType)r.st2, r.gap2);
    auto ps = placements(r);
    int sat = 0;
    std::string what = fmt("%s %s %s gap %s%g", r.gt ? "BDRY" : "CENTRE", SDN[r.sd], r.st == 1 ? "EQ" : "INEQ", std::signbit(r.gap) ? "-" : "", std::fabs(r.gap));
    if (r.second) what += fmt(" + %s %s %s gap %s%g", r.gt2 ? "BDRY" : "CENTRE", SDN[r.sd2], r.st2 == 1 ? "EQ" : "INEQ", std::signbit(r.gap2) ? "-" : "", std::fabs(r.gap2));
    // (i) the stored constraint means what constraints.h says (non-negative gaps: the sign of a stored gap encodes direction)
    bool refOk = !std::signbit(r.gap) && !r.second;   // pairs of constraints are judged by the transform / group laws only
    for (auto &p : ps) {
        bool lib = holdsLib(sp, p);
        sat += lib;
        if (refOk) {
            bool ref = holdsRef((GapType)r.gt, (SepDir)r.sd, (SepType)r.st, r.gap, p);
            if (lib != ref) { v.fail(fmt("%s: placement node2-node1=(%g,%g), sizes (%gx%g),(%gx%g): library constraints %s, definition %s", what.c_str(), p.x2 - p.x1, p.y2 - p.y1, p.w1, p.h1, p.w2, p.h2, lib ? "hold" : "fail", ref ? "holds" : "fails"), "semantics"); return v; }
        }
    }
    v.nontrivial = sat > 0 && sat < (int)ps.size();
    if (std::signbit(r.gap) && r.gap == 0) v.cls("negative-zero-gap");
    if (r.gap == 0) v.cls("zero-gap");
    // (ii) a placement satisfies the constraint iff the transformed placement satisfies the transformed constraint
    for (int t = 0; t < 7 && v.ok; t++) {
        SepPair tp = sp;
        tp.transform(ALLT[t]);
        Mat m = matOf(ALLT[t]);
        for (auto &p : ps) {
            bool before = holdsLib(sp, p), after = holdsLib(tp, apply(m, p));
            if (before != after) { v.fail(fmt("%s under %s: placement node2-node1=(%g,%g) %s the constraint but its image %s the transformed constraint [%s -> %s]", what.c_str(), TN[t], p.x2 - p.x1, p.y2 - p.y1,
                                              before ? "satisfies" : "violates", after ? "satisfies" : "violates", stateStr(sp).c_str(), stateStr(tp).c_str()), "transform-does-not-commute"); break; }
        }
    }
    // (iii) the transforms compose like the symmetry group of the square
    for (int t1 = 0; t1 < 7 && v.ok; t1++) for (int t2 = 0; t2 < 7 && v.ok; t2++) {
        SepPair two = sp;
        two.transform(ALLT[t1]); two.transform(ALLT[t2]);
        Mat m = mul(matOf(ALLT[t2]), matOf(ALLT[t1]));
        SepPair one = sp;
        const char *name = "identity";
        if (!(m == IDENT)) { for (int t3 = 0; t3 < 7; t3++) if (matOf(ALLT[t3]) == m) { one.transform(ALLT[t3]); name = TN[t3]; } }
        if (!sameState(two, one)) v.fail(fmt("%s: %s then %s gives %s, but %s gives %s", what.c_str(), TN[t1], TN[t2], stateStr(two).c_str(), name, stateStr(one).c_str()), "group-law");
    }
    if (v.ok) { SepPair four = sp; for (int k = 0; k < 4; k++) four.transform(SepTransform::ROTATE90CW); if (!sameState(four, sp)) v.fail(what + ": four quarter turns do not give back the constraint", "group-law"); }
    return v;
}

// (iv) SepMatrix: a constraint stored under (a,b) is equivalent to its negation stored under (b,a)
struct CKey { int l, r; double gap; bool eq; bool operator<(const CKey &o) const { return std::tie(l, r, gap, eq) < std::tie(o.l, o.r, o.gap, o.eq); }
              bool operator==(const CKey &o) const { return l == o.l && r == o.r && gap == o.gap && eq == o.eq; } };
std::multiset<CKey> constraintsOf(Graph &g, const std::map<id_type, int> &ext) {
    std::multiset<CKey> out;
    ColaGraphRep &cgr = g.updateColaGraphRep();
    for (int d = 0; d < 2; d++) {
        vpsc::Variables vs;
        for (size_t i = 0; i < cgr.rs.size(); i++) vs.push_back(new vpsc::Variable((int)i));
        vpsc::Constraints cs;
        vpsc::Rectangles bbs;
        g.getSepMatrix().generateSeparationConstraints((vpsc::Dim)d, vs, cs, bbs);
        for (auto c : cs) {
            CKey k{ext.at(cgr.ix2id.at(c->left->id)) * 2 + d, ext.at(cgr.ix2id.at(c->right->id)) * 2 + d, c->gap, c->equality};
            // l + g == r is the same constraint as r + (-g) == l: canonical form has l < r
            if (k.eq && k.l > k.r) { std::swap(k.l, k.r); k.gap = -k.gap; }
            if (k.gap == 0) k.gap = 0;      // -0 == +0
            out.insert(k);
            delete c;
        }
        for (auto x : vs) delete x;
    }
    return out;
}
Verdict eval_flip(const Row &r) {
    Verdict v;
    std::multiset<CKey> res[2];
    for (int flipped = 0; flipped < 2; flipped++) {
        Graph g;
        const double *z = SIZES[r.sizes];
        Node_SP a = Node::allocate(3, 4, z[0], z[1]), b = Node::allocate(40, 50, z[2], z[3]);
        g.addNode(a); g.addNode(b);
        std::map<id_type, int> ext{{a->id(), 0}, {b->id(), 1}};
        if (!flipped) g.getSepMatrix().addSep(a->id(), b->id(), (GapType)r.gt, (SepDir)r.sd, (SepType)r.st, r.gap);
        else g.getSepMatrix().addSep(b->id(), a->id(), (GapType)r.gt, negateSepDir((SepDir)r.sd), (SepType)r.st, r.gap);
        res[flipped] = constraintsOf(g, ext);
    }
    v.nontrivial = true;
    if (res[0] != res[1]) {
        std::string s0, s1;
        for (auto &k : res[0]) s0 += fmt("[v%d+%g%sv%d]", k.l, k.gap, k.eq ? "==" : "<=", k.r);
        for (auto &k : res[1]) s1 += fmt("[v%d+%g%sv%d]", k.l, k.gap, k.eq ? "==" : "<=", k.r);
        v.fail(fmt("addSep(a,b,%s %s gap %g) generates %s but addSep(b,a,negated direction) generates %s (variables 2*node+dim)", r.gt ? "BDRY" : "CENTRE", SDN[r.sd], r.gap, s0.c_str(), s1.c_str()), "flipped-storage");
    }
    return v;
}

Row parseRow(Reader &rd) { Row r; rd.expect("row"); r.gt = rd.i(); r.sd = rd.i(); r.st = rd.i(); r.gap = rd.d(); r.second = rd.i(); r.gt2 = rd.i(); r.sd2 = rd.i(); r.st2 = rd.i(); r.gap2 = rd.d(); r.sizes = rd.i(); return r; }

bool exhaustive_table() {
    int si, sn; shard(si, sn);
    Stats &st = S();
    const double gaps[5] = {0.0, -0.0, 3, 11, 7.5};
    long idx = 0;
    auto run = [&](const Row &r, bool flipToo) {
        if ((idx++ % sn) != si) return true;
        for (int which = 0; which < (flipToo ? 2 : 1); which++) {
            const char *prop = which ? "C18.flip" : "C18.table";
            Verdict v = guarded([&] { return which ? eval_flip(r) : eval_row(r); });
            st.evaluations++;
            for (auto &c : v.classes) st.classes[c]++;
            if (v.nontrivial) { st.distinct_by_construction++; if (st.samples.size() < 2 && (st.distinct_by_construction % 101) == 7) st.samples.push_back(std::string("prop ") + prop + "\n" + rowStr(r)); }
            if (!v.ok || v.aborted) {
                write_file(st.dir + "/pending.case", std::string("prop ") + prop + "\n" + rowStr(r) + "\n");
                fprintf(stderr, "FAIL prop=%s: %s\n", prop, v.msg.c_str());
                if (!v.sig.empty()) fprintf(stderr, "SIGNATURE: %s\n", v.sig.c_str());
                st.failed_once = true;
                return false;
            }
        }
        return true;
    };
    for (int gt = 0; gt < 2; gt++) for (int sd = 0; sd < 8; sd++) for (int stp = 1; stp <= 2; stp++) for (double g : gaps) for (int sz = 0; sz < 3; sz++) {
        Row r{gt, sd, stp, g, 0, 0, 0, 0, false, sz};
        if (!run(r, !std::signbit(g))) return false;
        // one SepPair carrying two constraints (a second one added afterwards)
        for (int sd2 : {4, 5, 6, 7, 0, 1}) for (int gt2 = 0; gt2 < 2; gt2++) {
            Row r2{gt, sd, stp, g, gt2, sd2, 3 - stp, g == 0 ? 3.0 : 0.0, true, sz};
            if (sz == 0 && !run(r2, false)) return false;
        }
    }
    if (si == 0) st.exhaustive.push_back("every SepDir(8) x SepType(EQ,INEQ) x GapType(CENTRE,BDRY) x gap in {+0,-0,3,7.5,11} x 3 node-size sets, alone and followed by a second constraint, x 7 transforms x >=64 lattice placements; full 7x7 composition table; (a,b) vs negated (b,a) storage");
    return true;
}

// ---------------------------------------------------------------- TGLF round trip
struct GNode { double cx, cy, w, h; };
struct GEdge { int s, t; std::vector<std::pair<double, double>> route; };
struct GSep { int a, b, gt, sd, st; double gap; };
struct GCase {
    std::vector<GNode> nodes; std::vector<GEdge> edges; std::vector<GSep> seps;
    std::string str() const {
        Writer w;
        w.tok("graph").i(nodes.size()).i(edges.size()).i(seps.size()).nl();
        for (auto &n : nodes) w.d(n.cx).d(n.cy).d(n.w).d(n.h).nl();
        for (auto &e : edges) { w.i(e.s).i(e.t).i(e.route.size()); for (auto &p : e.route) w.d(p.first).d(p.second); w.nl(); }
        for (auto &s : seps) w.i(s.a).i(s.b).i(s.gt).i(s.sd).i(s.st).d(s.gap).nl();
        return w.str();
    }
    static GCase parse(Reader &r) {
        GCase c; r.expect("graph"); size_t n = r.i(), m = r.i(), k = r.i();
        for (size_t i = 0; i < n; i++) { GNode g; g.cx = r.d(); g.cy = r.d(); g.w = r.d(); g.h = r.d(); c.nodes.push_back(g); }
        for (size_t i = 0; i < m; i++) { GEdge e; e.s = r.i(); e.t = r.i(); size_t q = r.i(); for (size_t j = 0; j < q; j++) { double x = r.d(), y = r.d(); e.route.push_back({x, y}); } c.edges.push_back(e); }
        for (size_t i = 0; i < k; i++) { GSep s; s.a = r.i(); s.b = r.i(); s.gt = r.i(); s.sd = r.i(); s.st = r.i(); s.gap = r.d(); c.seps.push_back(s); }
        return c;
    }
};
Verdict eval_roundtrip(const GCase &c) {
    Verdict v;
    Graph g;
    std::vector<Node_SP> ns;
    for (auto &n : c.nodes) { Node_SP u = Node::allocate(n.cx, n.cy, n.w, n.h); g.addNode(u); ns.push_back(u); }
    bool bends = false, zeroOrNeg = false;
    for (auto &e : c.edges) {
        Edge_SP ed = Edge::allocate(ns[e.s], ns[e.t]);
        std::vector<Avoid::Point> rt;
        for (auto &p : e.route) rt.push_back(Avoid::Point(p.first, p.second));
        if (!rt.empty()) ed->setRoute(rt);
        if (rt.size() > 2) bends = true;
        g.addEdge(ed);
    }
    for (auto &s : c.seps) { g.getSepMatrix().addSep(ns[s.a]->id(), ns[s.b]->id(), (GapType)s.gt, (SepDir)s.sd, (SepType)s.st, s.gap); if (s.gap == 0) zeroOrNeg = true; }
    v.nontrivial = bends && zeroOrNeg;
    if (bends) v.cls("route-with-bends");
    if (zeroOrNeg) v.cls("zero-gap-constraint");
    std::string text;
    try { text = g.writeTglf(); }
    catch (std::runtime_error &e) { v.cls("writer-rejects(coincidence)"); v.nontrivial = false; return v; }     // documented clean rejection
    Graph_SP g2 = buildGraphFromTglf(text);
    // nodes by external id
    std::map<int, Node_SP> byExt;
    for (auto &p : g2->getNodeLookup()) byExt[p.second->getExternalId()] = p.second;
    if (byExt.size() != c.nodes.size()) { v.fail(fmt("read back %zu nodes, wrote %zu\n%s", byExt.size(), c.nodes.size(), text.c_str()), "roundtrip-nodes"); return v; }
    std::map<id_type, int> ext1, ext2;
    for (size_t i = 0; i < ns.size(); i++) {
        int id = (int)ns[i]->id();
        ext1[ns[i]->id()] = (int)i;
        if (!byExt.count(id)) { v.fail(fmt("node %d missing after the round trip", id), "roundtrip-nodes"); return v; }
        Node_SP u = byExt[id];
        ext2[u->id()] = (int)i;
        Avoid::Point ce = u->getCentre(); dimensions d = u->getDimensions();
        if (ce.x != c.nodes[i].cx || ce.y != c.nodes[i].cy || d.first != c.nodes[i].w || d.second != c.nodes[i].h)
            v.fail(fmt("node %zu: wrote centre (%g,%g) size %gx%g, read back (%.9g,%.9g) %.9gx%.9g", i, c.nodes[i].cx, c.nodes[i].cy, c.nodes[i].w, c.nodes[i].h, ce.x, ce.y, d.first, d.second), "roundtrip-node-geometry");
    }
    if (!v.ok) return v;
    // edges as a multiset of (ends, route)
    auto edgeKey = [&](Graph &gg, std::map<id_type, int> &ext) {
        std::multiset<std::string> ks;
        for (auto &p : gg.getEdgeLookup()) {
            auto ends = p.second->getEndIds();
            std::string k = fmt("%d-%d:", ext.at(ends.first), ext.at(ends.second));
            for (auto &q : p.second->getRoute()) k += fmt("(%.9g,%.9g)", q.x, q.y);
            ks.insert(k);
        }
        return ks;
    };
    auto e1 = edgeKey(g, ext1), e2 = edgeKey(*g2, ext2);
    if (e1 != e2) {
        std::string a, b; for (auto &k : e1) a += k + " "; for (auto &k : e2) b += k + " ";
        v.fail("edges differ after the round trip: wrote " + a + "| read " + b, "roundtrip-edges"); return v;
    }
    // constraints: identical generated separation constraints (sizes come from the nodes, equal on both sides)
    auto c1 = constraintsOf(g, ext1), c2 = constraintsOf(*g2, ext2);
    if (c1 != c2) {
        std::string s0, s1;
        for (auto &k : c1) s0 += fmt("[v%d+%.9g%sv%d]", k.l, k.gap, k.eq ? "==" : "<=", k.r);
        for (auto &k : c2) s1 += fmt("[v%d+%.9g%sv%d]", k.l, k.gap, k.eq ? "==" : "<=", k.r);
        v.fail("separation constraints differ after the round trip: before " + s0 + " after " + s1 + "\nTGLF:\n" + text, "roundtrip-constraints"); return v;
    }
    // and writing the reloaded graph again gives the same text
    std::string text2 = g2->writeTglf(true);
    if (text2 != text) v.fail("second write differs from the first:\n" + text + "----\n" + text2, "roundtrip-not-idempotent");
    return v;
}
GCase gen_graph() {
    GCase c;
    int n = sized(2, 15);
    // values the writers can represent exactly: node/route numbers are printed with 6 significant digits, gaps with 3 decimals
    auto coord = [] { return irange(-4000, 4000) / 4.0; };       // <= 6 significant digits
    for (int i = 0; i < n; i++) c.nodes.push_back({coord(), coord(), irange(1, 400) / 2.0, irange(1, 400) / 2.0});
    int m = irange(0, 2 * n);
    for (int i = 0; i < m; i++) {
        GEdge e; e.s = irange(0, n - 1); e.t = irange(0, n - 1);
        if (e.s == e.t) continue;
        int k = coin(1, 2) ? 0 : irange(2, 6);
        for (int j = 0; j < k; j++) e.route.push_back({coord(), coord()});
        c.edges.push_back(e);
    }
    int k = irange(0, 30);
    std::set<std::pair<int, int>> used;
    for (int i = 0; i < k; i++) {
        GSep s; s.a = irange(0, n - 1); s.b = irange(0, n - 1);
        if (s.a == s.b) continue;
        s.gt = irange(0, 1); s.sd = irange(0, 7); s.st = irange(1, 2);
        s.gap = pick(std::vector<double>{0, 0, 1, 2.5, 10, 12.125, 0.001, 37.75, 100});
        // a CENTRE EQ 0 separation in both axes would force coincidence (writer documents a runtime_error): allowed, judged as clean rejection
        c.seps.push_back(s);
    }
    return c;
}
} // namespace

int main(int argc, char **argv) {
    std::vector<Prop> props;
    props.push_back({"C18.table", 0, nullptr, [](Reader &r) { return eval_row(parseRow(r)); }, exhaustive_table});
    props.push_back({"C18.flip", 0, nullptr, [](Reader &r) { return eval_flip(parseRow(r)); }, nullptr});
    props.push_back({"C18.roundtrip", 1.0,
        [] { GCase c = gen_graph(); return record("C18.roundtrip", c.str(), [&] { return eval_roundtrip(c); }); },
        [](Reader &r) { return eval_roundtrip(GCase::parse(r)); }, nullptr});
    return run_main(argc, argv, props);
}
