// C16: libavoid geometry predicates against exact integer/rational arithmetic.
// Exhaustive over small lattices, random over coordinates up to 2^20 (also
// half-integers and negatives).  All reference code works on 128-bit integers
// of the doubled coordinates, so half-integers stay exact.
#include "common/verif.h"
#include "libavoid/geometry.h"
#include "libavoid/geomtypes.h"

using namespace verif;
using Avoid::Point;
typedef __int128 I;

namespace {
struct P2 { long long x, y; };                    // doubled coordinates
inline bool exact2(double v, long long &o) { double t = v * 2; o = (long long)std::llround(t); return (double)o == t && std::fabs(t) < 9e15; }
inline P2 mk(const Point &p) { P2 r; if (!exact2(p.x, r.x) || !exact2(p.y, r.y)) throw std::runtime_error("coordinate not a half-integer"); return r; }
inline bool eq(P2 a, P2 b) { return a.x == b.x && a.y == b.y; }
inline I cross(P2 a, P2 b, P2 c) { return (I)(b.x - a.x) * (c.y - a.y) - (I)(c.x - a.x) * (b.y - a.y); }
inline I dot(P2 a, P2 b, P2 c) { return (I)(b.x - a.x) * (c.x - a.x) + (I)(b.y - a.y) * (c.y - a.y); }
inline int sgn(I v) { return v > 0 ? 1 : v < 0 ? -1 : 0; }

// c strictly inside segment ab (open segment); false when a==b
bool refOpenSeg(P2 a, P2 b, P2 c) {
    if (eq(a, b) || cross(a, b, c) != 0) return false;
    I d = dot(a, b, c), l = dot(a, b, b);
    return d > 0 && d < l;
}
bool refClosedSeg(P2 a, P2 b, P2 c) {
    if (eq(a, b)) return eq(a, c);
    if (cross(a, b, c) != 0) return false;
    I d = dot(a, b, c), l = dot(a, b, b);
    return d >= 0 && d <= l;
}
// proper crossing: the open segments meet in exactly one point (rational parameters)
bool refProper(P2 a, P2 b, P2 c, P2 d) {
    I den = (I)(b.x - a.x) * (d.y - c.y) - (I)(b.y - a.y) * (d.x - c.x);
    if (den == 0) return false;
    I tn = (I)(c.x - a.x) * (d.y - c.y) - (I)(c.y - a.y) * (d.x - c.x);
    I sn = (I)(c.x - a.x) * (b.y - a.y) - (I)(c.y - a.y) * (b.x - a.x);
    if (den < 0) { den = -den; tn = -tn; sn = -sn; }
    return tn > 0 && tn < den && sn > 0 && sn < den;
}
// class of segmentIntersectPoint and (for DO_INTERSECT) the point, in original units
int refSIP(P2 a, P2 b, P2 c, P2 d, long double &x, long double &y) {
    I den = (I)(b.x - a.x) * (d.y - c.y) - (I)(b.y - a.y) * (d.x - c.x);
    if (den != 0) {
        I tn = (I)(c.x - a.x) * (d.y - c.y) - (I)(c.y - a.y) * (d.x - c.x);
        I sn = (I)(c.x - a.x) * (b.y - a.y) - (I)(c.y - a.y) * (b.x - a.x);
        if (den < 0) { den = -den; tn = -tn; sn = -sn; }
        if (tn < 0 || tn > den || sn < 0 || sn > den) return Avoid::DONT_INTERSECT;
        x = (a.x + (long double)tn / (long double)den * (b.x - a.x)) / 2;
        y = (a.y + (long double)tn / (long double)den * (b.y - a.y)) / 2;
        return Avoid::DO_INTERSECT;
    }
    // direction vectors parallel (or a zero-length segment): PARALLEL iff the closed segments share a point
    bool share = refClosedSeg(a, b, c) || refClosedSeg(a, b, d) || refClosedSeg(c, d, a) || refClosedSeg(c, d, b);
    return share ? Avoid::PARALLEL : Avoid::DONT_INTERSECT;
}
// contract of segmentShapeIntersect: proper crossing blocks; an end of e touching
// the half-open boundary edge (s1,s2] from off the edge's line is allowed once.
bool refShape(P2 e1, P2 e2, P2 s1, P2 s2, bool &seen) {
    if (refProper(e1, e2, s1, s2)) return true;
    auto onHalfOpen = [&](P2 p) { return eq(p, s2) || refOpenSeg(s1, s2, p); };
    bool touch = (onHalfOpen(e1) && cross(s1, s2, e2) != 0) || (onHalfOpen(e2) && cross(s1, s2, e1) != 0);
    if (touch) { if (seen) return true; seen = true; }
    return false;
}
// point in simple polygon: 0 outside, 1 boundary, 2 interior
int refInPoly(const std::vector<P2> &P, P2 q) {
    size_t n = P.size();
    for (size_t i = 0; i < n; i++) if (refClosedSeg(P[i], P[(i + 1) % n], q)) return 1;
    bool in = false;
    for (size_t i = 0; i < n; i++) {
        P2 p = P[i], r = P[(i + 1) % n];
        if ((p.y > q.y) != (r.y > q.y)) {
            // x of the edge at height q.y compared with q.x, multiplied through by (r.y-p.y)
            I lhs = (I)(r.x - p.x) * (q.y - p.y) - (I)(q.x - p.x) * (r.y - p.y);
            if ((r.y > p.y) ? (lhs > 0) : (lhs < 0)) in = !in;
        }
    }
    return in ? 2 : 0;
}
bool strictlyConvexPositive(const std::vector<P2> &P) {
    size_t n = P.size();
    if (n < 3) return false;
    for (size_t i = 0; i < n; i++) if (cross(P[i], P[(i + 1) % n], P[(i + 2) % n]) <= 0) return false;
    // a polygon with all left turns is convex iff it winds once: total signed area equals the fan area
    I fan = 0;
    for (size_t i = 1; i + 1 < n; i++) { I c = cross(P[0], P[i], P[i + 1]); if (c <= 0) return false; fan += c; }
    return true;
}
bool simplePolygon(const std::vector<P2> &P) {
    size_t n = P.size();
    if (n < 3) return false;
    for (size_t i = 0; i < n; i++) {
        P2 a = P[i], b = P[(i + 1) % n], c = P[(i + 2) % n];
        if (eq(a, b)) return false;
        if (cross(a, b, c) == 0 && dot(b, a, c) > 0) return false;     // spike (180 degree reversal)
        for (size_t j = i + 2; j < n; j++) {
            if (i == 0 && j == n - 1) continue;
            P2 e = P[j], f = P[(j + 1) % n];
            if (refProper(a, b, e, f) || refClosedSeg(a, b, e) || refClosedSeg(a, b, f) || refClosedSeg(e, f, a) || refClosedSeg(e, f, b)) return false;
        }
    }
    I area = 0;
    for (size_t i = 1; i + 1 < n; i++) area += cross(P[0], P[i], P[i + 1]);
    return area != 0;
}

std::string ps(const Point &p) { return fmt("(%g,%g)", p.x, p.y); }

// ---------------------------------------------------------------- three points
Verdict eval3(const Point &a, const Point &b, const Point &c) {
    Verdict v;
    P2 A = mk(a), B = mk(b), C = mk(c);
    int r = sgn(cross(A, B, C));
    v.nontrivial = (r == 0);
    if (r == 0) v.cls("3pt-collinear-or-repeated");
    std::string t = ps(a) + ps(b) + ps(c);
    if (Avoid::vecDir(a, b, c) != r) v.fail("vecDir" + t + fmt(" = %d, exact %d", Avoid::vecDir(a, b, c), r), "vecDir");
    if (Avoid::vecDir(b, a, c) != -r) v.fail("vecDir(b,a,c) != -vecDir(a,b,c) for " + t, "vecDir-sym");
    if (Avoid::vecDir(b, c, a) != r) v.fail("vecDir(b,c,a) != vecDir(a,b,c) for " + t, "vecDir-sym");
    if (Avoid::colinear(a, b, c) != (r == 0)) v.fail("colinear" + t + fmt(" = %d, exact %d", (int)Avoid::colinear(a, b, c), (int)(r == 0)), "colinear");
    bool on = refOpenSeg(A, B, C);
    if (Avoid::pointOnLine(a, b, c) != on) v.fail("pointOnLine" + t + fmt(" = %d, exact (open segment) %d", (int)Avoid::pointOnLine(a, b, c), (int)on), "pointOnLine");
    if (Avoid::pointOnLine(b, a, c) != on) v.fail("pointOnLine(b,a,c) != pointOnLine(a,b,c) for " + t, "pointOnLine-sym");
    if (r == 0 && !eq(A, B) && Avoid::inBetween(a, b, c) != on) v.fail("inBetween" + t + " disagrees with the exact open-segment test", "inBetween");
    return v;
}

// ---------------------------------------------------------------- four points
Verdict eval4(const Point &a, const Point &b, const Point &c, const Point &d, double tol) {
    Verdict v;
    P2 A = mk(a), B = mk(b), C = mk(c), D = mk(d);
    std::string t = ps(a) + ps(b) + " x " + ps(c) + ps(d);
    bool degenerate = cross(A, B, C) == 0 || cross(A, B, D) == 0 || cross(C, D, A) == 0 || cross(C, D, B) == 0;
    v.nontrivial = degenerate;
    if (degenerate) v.cls("4pt-degenerate");
    bool proper = refProper(A, B, C, D);
    if (proper) v.cls("4pt-proper-crossing");
    bool lib = Avoid::segmentIntersect(a, b, c, d);
    if (lib != proper) v.fail("segmentIntersect " + t + fmt(" = %d, exact proper crossing %d", (int)lib, (int)proper), "segmentIntersect");
    if (Avoid::segmentIntersect(c, d, a, b) != lib || Avoid::segmentIntersect(b, a, c, d) != lib || Avoid::segmentIntersect(a, b, d, c) != lib)
        v.fail("segmentIntersect not symmetric under swapping/reversing for " + t, "segmentIntersect-sym");
    long double rx = 0, ry = 0;
    int ref = refSIP(A, B, C, D, rx, ry);
    struct Q { const Point *p[4]; } perms[4] = {{{&a, &b, &c, &d}}, {{&c, &d, &a, &b}}, {{&b, &a, &c, &d}}, {{&a, &b, &d, &c}}};
    for (int k = 0; k < 4 && v.ok; k++) {
        double x = -777, y = -777;
        int cls = Avoid::segmentIntersectPoint(*perms[k].p[0], *perms[k].p[1], *perms[k].p[2], *perms[k].p[3], &x, &y);
        if (cls != ref) v.fail("segmentIntersectPoint " + t + fmt(" (argument permutation %d) = %d, exact %d", k, cls, ref), k ? "segmentIntersectPoint-sym" : "segmentIntersectPoint");
        else if (cls == Avoid::DO_INTERSECT && (std::fabs(x - (double)rx) > tol || std::fabs(y - (double)ry) > tol))
            v.fail("segmentIntersectPoint " + t + fmt(" (permutation %d) point (%.17g,%.17g), exact (%.17Lg,%.17Lg)", k, x, y, rx, ry), "segmentIntersectPoint-xy");
    }
    if (ref == Avoid::PARALLEL) v.cls("4pt-parallel-overlap");
    for (int s0 = 0; s0 < 2 && v.ok; s0++) {
        bool seenL = s0, seenR = s0;
        bool l = Avoid::segmentShapeIntersect(a, b, c, d, seenL);
        bool r = refShape(A, B, C, D, seenR);
        if (l != r || seenL != seenR)
            v.fail("segmentShapeIntersect e=" + ps(a) + ps(b) + " s=" + ps(c) + ps(d) + fmt(" seen=%d -> (%d,seen=%d), contract (%d,seen=%d)", s0, (int)l, (int)seenL, (int)r, (int)seenR), "segmentShapeIntersect");
        if (!s0 && seenR) v.cls("shape-endpoint-touch");
    }
    return v;
}

// ---------------------------------------------------------------- polygons
Verdict evalPoly(const std::vector<Point> &pts, const Point &q) {
    Verdict v;
    std::vector<P2> P;
    for (auto &p : pts) P.push_back(mk(p));
    P2 Q = mk(q);
    Avoid::Polygon poly((int)pts.size());
    for (size_t i = 0; i < pts.size(); i++) poly.ps[i] = pts[i];
    std::string t = "polygon";
    for (auto &p : pts) t += ps(p);
    t += " q=" + ps(q);
    bool simple = simplePolygon(P);
    if (!simple) return v;                       // outside every predicate's domain; not counted
    int where = refInPoly(P, Q);
    v.nontrivial = (where == 1);
    if (where == 1) v.cls("poly-on-border");
    if (where == 2) v.cls("poly-interior");
    bool g = Avoid::inPolyGen(poly, q);
    if (g != (where >= 1)) v.fail("inPolyGen " + t + fmt(" = %d, exact closed-region test %d", (int)g, (int)(where >= 1)), "inPolyGen");
    if (strictlyConvexPositive(P)) {
        v.cls("poly-convex");
        bool c1 = Avoid::inPoly(poly, q, true), c0 = Avoid::inPoly(poly, q, false);
        if (c1 != (where >= 1)) v.fail("inPoly(countBorder=true) " + t + fmt(" = %d, exact %d", (int)c1, (int)(where >= 1)), "inPoly");
        if (c0 != (where == 2)) v.fail("inPoly(countBorder=false) " + t + fmt(" = %d, exact %d", (int)c0, (int)(where == 2)), "inPoly-border");
    } else v.cls("poly-nonconvex-or-negative");
    return v;
}

// ---------------------------------------------------------------- replay format
std::string txt(const char *kind, const std::vector<Point> &p) {
    Writer w; w.tok(kind).i(p.size());
    for (auto &q : p) w.d(q.x).d(q.y);
    return w.str();
}
Verdict replay_any(Reader &r) {
    std::string kind = r.tok();
    size_t n = r.i();
    std::vector<Point> p;
    for (size_t i = 0; i < n; i++) { double x = r.d(), y = r.d(); p.push_back(Point(x, y)); }
    if (kind == "pt3" && n == 3) return eval3(p[0], p[1], p[2]);
    if (kind == "pt4" && n == 4) return eval4(p[0], p[1], p[2], p[3], 1e-9 * 2097152.0);
    if (kind == "poly" && n >= 4) { Point q = p.back(); p.pop_back(); return evalPoly(p, q); }
    throw std::runtime_error("bad C16 case");
}

// ---------------------------------------------------------------- exhaustive spaces
bool fail_exh(const char *prop, const std::string &body, const Verdict &v) {
    Stats &s = S();
    write_file(s.dir + "/pending.case", std::string("prop ") + prop + "\n" + body + "\n");
    fprintf(stderr, "FAIL prop=%s: %s\n", prop, v.msg.c_str());
    if (!v.sig.empty()) fprintf(stderr, "SIGNATURE: %s\n", v.sig.c_str());
    s.failed_once = true;
    return false;
}
void tally(const Verdict &v, const std::string &body) {
    Stats &s = S();
    s.evaluations++;
    for (auto &c : v.classes) s.classes[c]++;
    if (v.nontrivial) {
        s.distinct_by_construction++;
        if (s.samples.size() < 2 && (s.distinct_by_construction % 977) == 1) s.samples.push_back(body);
    }
}
bool exhaustive_points() {
    int si, sn; shard(si, sn);
    const int G3 = 6, G4 = tier_thorough() ? 6 : 5;
    std::vector<Point> g3, g4;
    for (int x = 0; x < G3; x++) for (int y = 0; y < G3; y++) g3.push_back(Point(x, y));
    for (int x = 0; x < G4; x++) for (int y = 0; y < G4; y++) g4.push_back(Point(x, y));
    for (size_t i = 0; i < g3.size(); i++) {
        if ((int)(i % sn) != si) continue;
        for (auto &b : g3) for (auto &c : g3) {
            Verdict v = guarded([&] { return eval3(g3[i], b, c); });
            tally(v, txt("pt3", {g3[i], b, c}));
            if (!v.ok || v.aborted) return fail_exh("C16.exhaustive", txt("pt3", {g3[i], b, c}), v);
        }
    }
    for (size_t i = 0; i < g4.size(); i++) {
        if ((int)(i % sn) != si) continue;
        for (auto &b : g4) for (auto &c : g4) for (auto &d : g4) {
            Verdict v = guarded([&] { return eval4(g4[i], b, c, d, 1e-12); });
            tally(v, txt("pt4", {g4[i], b, c, d}));
            if (!v.ok || v.aborted) return fail_exh("C16.exhaustive", txt("pt4", {g4[i], b, c, d}), v);
        }
    }
    // all triangles and quadrilaterals on the 5x5 lattice (simple ones are judged) x all query points
    std::vector<Point> g5;
    for (int x = 0; x < 5; x++) for (int y = 0; y < 5; y++) g5.push_back(Point(x, y));
    for (size_t i = 0; i < g5.size(); i++) {
        if ((int)(i % sn) != si) continue;
        for (auto &b : g5) for (auto &c : g5) {
            for (auto &q : g5) {
                Verdict v = guarded([&] { return evalPoly({g5[i], b, c}, q); });
                tally(v, txt("poly", {g5[i], b, c, q}));
                if (!v.ok || v.aborted) return fail_exh("C16.exhaustive", txt("poly", {g5[i], b, c, q}), v);
            }
            for (auto &d : g5) {
                std::vector<P2> P{mk(g5[i]), mk(b), mk(c), mk(d)};
                if (!simplePolygon(P)) continue;
                for (auto &q : g5) {
                    Verdict v = guarded([&] { return evalPoly({g5[i], b, c, d}, q); });
                    tally(v, txt("poly", {g5[i], b, c, d, q}));
                    if (!v.ok || v.aborted) return fail_exh("C16.exhaustive", txt("poly", {g5[i], b, c, d, q}), v);
                }
            }
        }
    }
    if (si == 0) {
        S().exhaustive.push_back(fmt("all %d^3 point triples on the %dx%d lattice (vecDir, colinear, pointOnLine, inBetween + symmetries)", G3 * G3, G3, G3));
        S().exhaustive.push_back(fmt("all %d^4 point quadruples on the %dx%d lattice (segmentIntersect, segmentIntersectPoint, segmentShapeIntersect + symmetries)", G4 * G4, G4, G4));
        S().exhaustive.push_back("all triangles and all simple quadrilaterals (both orientations, convex and not) on the 5x5 lattice x all 25 query points (inPoly, inPolyGen)");
    }
    return true;
}

// ---------------------------------------------------------------- random large coordinates
Point rpt(int mag, bool half) {
    long long x = irange(-mag, mag), y = irange(-mag, mag);
    return half ? Point(x / 2.0, y / 2.0) : Point((double)x, (double)y);
}
// a point on the line through a and b (exact): a + k*(b-a)/g where g divides the direction
Point onLine(const Point &a, const Point &b) {
    long long ax2, ay2, bx2, by2; exact2(a.x, ax2); exact2(a.y, ay2); exact2(b.x, bx2); exact2(b.y, by2);
    long long dx = bx2 - ax2, dy = by2 - ay2;
    long long g = std::max<long long>(1, std::__gcd(dx < 0 ? -dx : dx, dy < 0 ? -dy : dy));
    long long k = irange(-2, (int)std::min<long long>(g + 2, 40));
    if (coin(1, 3)) k = coin(1, 2) ? 0 : g;                 // exactly an endpoint
    return Point((ax2 + dx / g * k) / 2.0, (ay2 + dy / g * k) / 2.0);
}
bool body_random() {
    int kind = irange(0, 2);
    int mag = pick(std::vector<int>{8, 64, 1 << 10, 1 << 20});
    bool half = coin(1, 4);
    if (kind == 0) {
        Point a = rpt(mag, half), b = coin(1, 10) ? a : rpt(mag, half);
        Point c = coin(1, 2) ? onLine(a, b) : rpt(mag, half);
        return record("C16.random", txt("pt3", {a, b, c}), [&] { return eval3(a, b, c); }, true);
    }
    if (kind == 1) {
        Point a = rpt(mag, half), b = coin(1, 12) ? a : rpt(mag, half);
        Point c, d;
        int m = irange(0, 4);
        c = (m == 0) ? rpt(mag, half) : onLine(a, b);                       // c on the carrier line of ab
        d = (m == 2) ? onLine(a, b) : (m == 3 ? Point(c.x + (b.x - a.x), c.y + (b.y - a.y)) : rpt(mag, half));  // collinear / parallel
        if (m == 4) { c = rpt(mag, half); d = onLine(a, b); }
        if (coin(1, 2)) { std::swap(a, c); std::swap(b, d); }
        return record("C16.random", txt("pt4", {a, b, c, d}), [&] { return eval4(a, b, c, d, 1e-9 * 2097152.0); }, true);
    }
    // convex polygon = hull of random points (positive orientation), or a random simple one; query on/near it
    int n = irange(3, 9);
    std::vector<Point> pts;
    for (int i = 0; i < n; i++) pts.push_back(rpt(mag, half));
    std::vector<Point> poly;
    if (coin(3, 4)) {   // monotone-chain hull, strictly convex, orientation chosen so that vecDir of successive vertices is +1
        std::sort(pts.begin(), pts.end(), [](const Point &p, const Point &q) { return p.x < q.x || (p.x == q.x && p.y < q.y); });
        std::vector<Point> h(2 * pts.size());
        size_t k = 0;
        auto cr = [](const Point &o, const Point &a, const Point &b) { return (a.x - o.x) * (b.y - o.y) - (a.y - o.y) * (b.x - o.x); };
        for (size_t i = 0; i < pts.size(); i++) { while (k >= 2 && cr(h[k - 2], h[k - 1], pts[i]) <= 0) k--; h[k++] = pts[i]; }
        for (size_t i = pts.size() - 1, t = k + 1; i > 0; i--) { while (k >= t && cr(h[k - 2], h[k - 1], pts[i - 1]) <= 0) k--; h[k++] = pts[i - 1]; }
        h.resize(k > 1 ? k - 1 : k);
        poly = h;
    } else poly.assign(pts.begin(), pts.begin() + std::min(n, 4));
    RC_PRE(poly.size() >= 3);
    Point q;
    int m = irange(0, 3);
    size_t e = irange(0, (int)poly.size() - 1);
    if (m == 0) q = rpt(mag, half);
    else if (m == 1) q = poly[e];
    else q = onLine(poly[e], poly[(e + 1) % poly.size()]);
    std::vector<Point> all = poly; all.push_back(q);
    return record("C16.random", txt("poly", all), [&] { return evalPoly(poly, q); }, true);
}
} // namespace

int main(int argc, char **argv) {
    std::vector<Prop> props;
    props.push_back({"C16.exhaustive", 0, nullptr, replay_any, exhaustive_points});
    props.push_back({"C16.random", 1.0, body_random, replay_any, nullptr});
    return run_main(argc, argv, props);
}
