// C11: connection pins, junctions and checkpoints are honoured by routes, also after the
// shape is moved or resized.
#include "common/scene.h"

using namespace verif;
using namespace sc;

namespace {
struct PinSpec { int shape; int cls; double xo, yo; bool proportional; double inside; int dirs; bool exclusive; double cost; };
struct ConnSpec {
    int srcKind = 0;            // 0 free point, 1 pin class on a shape, 2 junction
    P src; int srcShape = 0, srcCls = 0, srcJunction = 0;
    int dstKind = 1; P dst; int dstShape = 0, dstCls = 0, dstJunction = 0;
    std::vector<P> checkpoints;
};
struct Move { int kind; int idx; Poly poly; P pos; };     // 0 moveShape(abs/resize) 1 moveJunction
struct Case {
    Cfg cfg;
    std::vector<Poly> shapes;
    std::vector<PinSpec> pins;
    std::vector<P> junctions;
    std::vector<ConnSpec> conns;
    std::vector<Move> early;     // applied before the first processTransaction()
    std::vector<Move> later;     // each followed by a processTransaction()
    std::string str() const {
        Writer w;
        Scene s; s.cfg = cfg; s.shapes = shapes; s.put(w);
        w.tok("pins").i(pins.size()).nl();
        for (auto &p : pins) w.i(p.shape).i(p.cls).d(p.xo).d(p.yo).i(p.proportional).d(p.inside).i(p.dirs).i(p.exclusive).d(p.cost).nl();
        w.tok("junctions").i(junctions.size()); for (auto &j : junctions) w.d(j.x).d(j.y); w.nl();
        w.tok("connectors").i(conns.size()).nl();
        for (auto &c : conns) {
            w.i(c.srcKind).d(c.src.x).d(c.src.y).i(c.srcShape).i(c.srcCls).i(c.srcJunction).i(c.dstKind).d(c.dst.x).d(c.dst.y).i(c.dstShape).i(c.dstCls).i(c.dstJunction).i(c.checkpoints.size());
            for (auto &q : c.checkpoints) w.d(q.x).d(q.y);
            w.nl();
        }
        for (auto *mv : {&early, &later}) {
            w.tok("moves").i(mv->size()).nl();
            for (auto &m : *mv) { w.i(m.kind).i(m.idx).d(m.pos.x).d(m.pos.y).i(m.poly.size()); for (auto &q : m.poly) w.d(q.x).d(q.y); w.nl(); }
        }
        return w.str();
    }
    static Case parse(Reader &r) {
        Case c;
        Scene s = Scene::get(r); c.cfg = s.cfg; c.shapes = s.shapes;
        r.expect("pins"); size_t n = r.i();
        for (size_t i = 0; i < n; i++) { PinSpec p; p.shape = r.i(); p.cls = r.i(); p.xo = r.d(); p.yo = r.d(); p.proportional = r.i(); p.inside = r.d(); p.dirs = r.i(); p.exclusive = r.i(); p.cost = r.d(); c.pins.push_back(p); }
        r.expect("junctions"); n = r.i(); for (size_t i = 0; i < n; i++) { double x = r.d(), y = r.d(); c.junctions.push_back({x, y}); }
        r.expect("connectors"); n = r.i();
        for (size_t i = 0; i < n; i++) {
            ConnSpec k; k.srcKind = r.i(); k.src.x = r.d(); k.src.y = r.d(); k.srcShape = r.i(); k.srcCls = r.i(); k.srcJunction = r.i();
            k.dstKind = r.i(); k.dst.x = r.d(); k.dst.y = r.d(); k.dstShape = r.i(); k.dstCls = r.i(); k.dstJunction = r.i();
            size_t q = r.i(); for (size_t j = 0; j < q; j++) { double x = r.d(), y = r.d(); k.checkpoints.push_back({x, y}); }
            c.conns.push_back(k);
        }
        for (auto *mv : {&c.early, &c.later}) {
            r.expect("moves"); n = r.i();
            for (size_t i = 0; i < n; i++) { Move m; m.kind = r.i(); m.idx = r.i(); m.pos.x = r.d(); m.pos.y = r.d(); size_t q = r.i(); for (size_t j = 0; j < q; j++) { double x = r.d(), y = r.d(); m.poly.push_back({x, y}); } mv->push_back(m); }
        }
        return c;
    }
};

// documented pin placement (connectionpin.h): proportional offsets 0..1 of the bounding box, 0 / 1 being the edges;
// absolute offsets from the top-left corner, ATTACH_POS_MAX_OFFSET (-1) or the full width/height being the far edge;
// the inside offset pulls an edge pin into the shape.
P pinPos(const PinSpec &p, const Poly &shape) {
    Box b = bbox(shape);
    double w = b.x1 - b.x0, h = b.y1 - b.y0;
    P q;
    if (p.proportional) {
        q.x = p.xo == 0 ? b.x0 + p.inside : (p.xo == 1 ? b.x1 - p.inside : b.x0 + p.xo * w);
        q.y = p.yo == 0 ? b.y0 + p.inside : (p.yo == 1 ? b.y1 - p.inside : b.y0 + p.yo * h);
    } else {
        q.x = p.xo == 0 ? b.x0 + p.inside : ((p.xo == -1 || p.xo == w) ? b.x1 - p.inside : b.x0 + p.xo);
        q.y = p.yo == 0 ? b.y0 + p.inside : ((p.yo == -1 || p.yo == h) ? b.y1 - p.inside : b.y0 + p.yo);
    }
    return q;
}
int dirOfStep(const P &from, const P &to) {      // Avoid::ConnDirFlags of the direction from `from` towards `to`
    if (to.y < from.y && to.x == from.x) return Avoid::ConnDirUp;
    if (to.y > from.y && to.x == from.x) return Avoid::ConnDirDown;
    if (to.x < from.x && to.y == from.y) return Avoid::ConnDirLeft;
    if (to.x > from.x && to.y == from.y) return Avoid::ConnDirRight;
    return 0;
}

Verdict eval_c11(const Case &c) {
    Verdict v;
    Built b;
    b.router = new Avoid::Router(c.cfg.flags);
    configure(b.router, c.cfg);
    std::vector<Poly> shapes = c.shapes;
    std::vector<P> junctions = c.junctions;
    std::vector<Avoid::ShapeRef *> sh;
    std::vector<Avoid::ShapeConnectionPin *> pins;
    std::vector<Avoid::JunctionRef *> js;
    std::vector<Avoid::ConnRef *> cn;
    bool orth = c.cfg.flags == 2;
    try {
        for (auto &p : shapes) sh.push_back(addShape(b.router, p));
        for (auto &p : c.pins) {
            auto *pin = new Avoid::ShapeConnectionPin(sh[p.shape], p.cls, p.xo, p.yo, p.proportional, p.inside, (Avoid::ConnDirFlags)p.dirs);
            pin->setExclusive(p.exclusive);
            if (p.cost > 0) pin->setConnectionCost(p.cost);
            pins.push_back(pin);
        }
        for (auto &j : junctions) js.push_back(new Avoid::JunctionRef(b.router, Avoid::Point(j.x, j.y)));
        auto endOf = [&](int kind, const P &pt, int shape, int cls, int jn) {
            if (kind == 1) return Avoid::ConnEnd(sh[shape], cls);
            if (kind == 2) return Avoid::ConnEnd(js[jn]);
            return Avoid::ConnEnd(Avoid::Point(pt.x, pt.y));
        };
        for (auto &k : c.conns) {
            Avoid::ConnRef *cr = new Avoid::ConnRef(b.router, endOf(k.srcKind, k.src, k.srcShape, k.srcCls, k.srcJunction), endOf(k.dstKind, k.dst, k.dstShape, k.dstCls, k.dstJunction));
            cr->setRoutingType(orth ? Avoid::ConnType_Orthogonal : Avoid::ConnType_PolyLine);
            if (!k.checkpoints.empty()) { std::vector<Avoid::Checkpoint> cps; for (auto &q : k.checkpoints) cps.push_back(Avoid::Checkpoint(Avoid::Point(q.x, q.y))); cr->setRoutingCheckpoints(cps); }
            cn.push_back(cr);
        }
        auto applyMove = [&](const Move &m) {
            if (m.kind == 0) { Avoid::Polygon poly = toPolygon(m.poly); b.router->moveShape(sh[m.idx], poly); shapes[m.idx] = m.poly; }
            else { b.router->moveJunction(js[m.idx], Avoid::Point(m.pos.x, m.pos.y)); junctions[m.idx] = m.pos; }
        };
        auto check = [&](const std::string &phase) {
            // pins follow their shape
            for (size_t i = 0; i < pins.size() && v.ok; i++) {
                Avoid::Point got = pins[i]->position();
                P want = pinPos(c.pins[i], shapes[c.pins[i].shape]);
                if (got.x != want.x || got.y != want.y) v.fail(fmt("%s: pin %zu of shape %d is at (%.12g,%.12g), its offsets put it at (%.12g,%.12g)", phase.c_str(), i, c.pins[i].shape, got.x, got.y, want.x, want.y), "pin-position");
            }
            std::map<std::tuple<int, double, double>, int> exclUse;
            std::map<std::tuple<int, double, double>, bool> exclFallback;   // some user of the position is a pin-to-pin connector drawn as a bare straight line (F41)
            for (size_t i = 0; i < cn.size() && v.ok; i++) {
                const ConnSpec &k = c.conns[i];
                std::vector<P> disp = toPts(cn[i]->displayRoute()), raw = toPts(cn[i]->route());
                if (disp.size() < 2) { v.fail(fmt("%s: connector %zu has a route of %zu points", phase.c_str(), i, disp.size()), "short-route"); break; }
                for (int e = 0; e < 2 && v.ok; e++) {
                    int kind = e ? k.dstKind : k.srcKind;
                    const P &end = e ? disp.back() : disp.front();
                    const P &next = e ? disp[disp.size() - 2] : disp[1];
                    if (kind == 0) { const P &want = e ? k.dst : k.src; if (!(end == want)) v.fail(fmt("%s: connector %zu end %d is at (%g,%g), its free endpoint is (%g,%g)", phase.c_str(), i, e, end.x, end.y, want.x, want.y), "free-end"); }
                    else if (kind == 2) { int jn = e ? k.dstJunction : k.srcJunction; Avoid::Point jp = js[jn]->position(); if (end.x != jp.x || end.y != jp.y || jp.x != junctions[jn].x || jp.y != junctions[jn].y) v.fail(fmt("%s: connector %zu end %d is at (%g,%g), junction %d is at (%g,%g) (model (%g,%g)); route %s", phase.c_str(), i, e, end.x, end.y, jn, jp.x, jp.y, junctions[jn].x, junctions[jn].y, ptsStr(disp).c_str()), "junction-end"); }
                    else {
                        int shape = e ? k.dstShape : k.srcShape, cls = e ? k.dstCls : k.srcCls;
                        int hit = -1, dirsAtPos = 0; bool excl = false;
                        for (size_t q = 0; q < c.pins.size(); q++) if (c.pins[q].shape == shape && c.pins[q].cls == cls) {
                            P pp = pinPos(c.pins[q], shapes[shape]);
                            if (pp == end) { hit = (int)q; dirsAtPos |= c.pins[q].dirs; excl |= c.pins[q].exclusive; }
                        }
                        if (hit < 0) {
                            // known finding F41: the end sits at the centre of the attached shape (the dummy vertex libavoid routes pin classes through), i.e. no pin was assigned
                            Box bb = bbox(shapes[shape]); bool centre = end.x == (bb.x0 + bb.x1) / 2 && end.y == (bb.y0 + bb.y1) / 2;
                            v.fail(fmt("%s: connector %zu end %d is at (%.12g,%.12g)%s, which is not the position of any pin of class %d on shape %d; route %s", phase.c_str(), i, e, end.x, end.y, centre ? " [the centre of that shape]" : "", cls, shape, ptsStr(disp).c_str()), centre ? "F41-pin-end-at-shape-centre" : "not-at-a-pin"); break; }
                        if (excl) { exclUse[std::make_tuple(shape, end.x, end.y)]++; if (k.srcKind == 1 && k.dstKind == 1 && disp.size() == 2) exclFallback[std::make_tuple(shape, end.x, end.y)] = true; }
                        // A pin lying exactly on the routing boundary (inside offset 0 and buffer 0) can also be reached by sliding
                        // along the shape's edge, whose visibility line passes through it; the direction clause is judged where the pin
                        // is off that boundary.
                        bool offBoundary = c.cfg.p(Avoid::shapeBufferDistance) > 0 && c.pins[hit].inside == 0;   // (a pin pulled inside its shape is reached through the shape, from any side)
                        if (orth && !offBoundary) v.cls("pin-on-routing-boundary(direction unjudged)");
                        if (orth && offBoundary) {
                            int d = dirOfStep(end, next);
                            v.cls("pin-direction-judged");
                            if (d && !(dirsAtPos & d)) v.fail(fmt("%s: connector %zu leaves the pin at (%g,%g) in direction flag %d, the pin permits %d; route %s", phase.c_str(), i, end.x, end.y, d, dirsAtPos, ptsStr(disp).c_str()), "pin-direction");
                        }
                    }
                }
                // checkpoints visited, in order (judged on the route the search produced)
                double lastParam = -1;
                for (auto &cp : k.checkpoints) {
                    double acc = 0, at = -1;
                    for (size_t s2 = 1; s2 < raw.size(); s2++) {
                        double len = std::hypot(raw[s2].x - raw[s2 - 1].x, raw[s2].y - raw[s2 - 1].y);
                        if (at < 0 && ptSegDist(cp, raw[s2 - 1], raw[s2]) <= 1e-6 && acc + std::hypot(cp.x - raw[s2 - 1].x, cp.y - raw[s2 - 1].y) >= lastParam - 1e-6) at = acc + std::hypot(cp.x - raw[s2 - 1].x, cp.y - raw[s2 - 1].y);
                        acc += len;
                    }
                    if (at < 0) { v.fail(fmt("%s: connector %zu does not visit checkpoint (%g,%g) in order; route %s", phase.c_str(), i, cp.x, cp.y, ptsStr(raw).c_str()), "checkpoint-not-visited"); break; }
                    lastParam = at;
                }
            }
            // exclusive pins are used by at most as many connectors as there are pins at that position
            for (auto &u : exclUse) {
                int cap = 0, sh = std::get<0>(u.first); double ux = std::get<1>(u.first), uy = std::get<2>(u.first);
                for (size_t q = 0; q < c.pins.size(); q++) { P pp = pinPos(c.pins[q], shapes[c.pins[q].shape]); if (c.pins[q].exclusive && c.pins[q].shape == sh && pp.x == ux && pp.y == uy) cap++; }
                // known finding F41 in disguise: a connector that fell back to the shape's centre looks as if it used a pin placed at the centre
                Box bb = bbox(shapes[sh]); bool centre = ux == (bb.x0 + bb.x1) / 2 && uy == (bb.y0 + bb.y1) / 2;
                bool fb = exclFallback.count(u.first) > 0;     // after a move the dummy vertex of a pin class sits where the previously used pin now is, not at the centre
                if (v.ok && u.second > cap) v.fail(fmt("%s: %d connector ends share the exclusive pin position (%g,%g) of shape %d%s%s that has %d pin(s)", phase.c_str(), u.second, ux, uy, sh, centre ? " [the centre of that shape]" : "", fb ? " [one of them a pin-class to pin-class connector drawn as a bare straight line]" : "", cap), (centre || fb) ? "F41-pin-end-at-shape-centre" : "exclusive-pin-shared");
            }
        };
        for (auto &m : c.early) applyMove(m);
        b.router->processTransaction();
        check("after the first transaction");
        int step = 0;
        for (auto &m : c.later) {
            if (!v.ok) break;
            applyMove(m);
            b.router->processTransaction();
            check(fmt("after move %d", ++step));
        }
    } catch (...) { b.abandon(); throw; }
    bool multi = false, cps = false;
    for (auto &k : c.conns) {
        if (!k.checkpoints.empty()) cps = true;
        for (int e = 0; e < 2; e++) if ((e ? k.dstKind : k.srcKind) == 1) { int n = 0; for (auto &p : c.pins) if (p.shape == (e ? k.dstShape : k.srcShape) && p.cls == (e ? k.dstCls : k.srcCls)) n++; if (n >= 2) multi = true; }
    }
    v.nontrivial = multi || cps || !c.later.empty() || !c.early.empty();
    if (!c.early.empty()) v.cls("moved-before-first-transaction");
    if (!c.later.empty()) v.cls("moved-after-routing");
    if (cps) v.cls("has-checkpoints");
    if (!c.junctions.empty()) v.cls("has-junction");
    v.cls(orth ? "orthogonal" : "polyline");
    return v;
}

// ---------------------------------------------------------------- generator
Case gen_case(int mode) {      // 0 pins (free point or pin -> pin class)  1 junction ends  2 checkpoints between free ends
    Case c;
    bool orth = coin(1, 2);
    c.cfg.flags = orth ? 2 : 1;
    c.cfg.param[Avoid::segmentPenalty] = orth ? pick(std::vector<double>{10, 20}) : pick(std::vector<double>{0, 10});
    c.cfg.param[Avoid::shapeBufferDistance] = pick(std::vector<double>{0, 2, 3});
    c.cfg.param[Avoid::idealNudgingDistance] = pick(std::vector<double>{1, 4});
    int span = irange(30, 70);
    Scene tmp;
    // shapes well apart (>= 8) so that every pin has room to be reached
    int k = irange(1, 5);
    std::vector<Box> boxes;
    for (int i = 0, tries = 0; i < k && tries < 200; tries++) {
        int w = irange(4, 16), h = irange(4, 16), x0 = irange(0, span), y0 = irange(0, span);
        Box bb{(double)x0, (double)y0, (double)x0 + w, (double)y0 + h};
        bool ok = true;
        for (auto &o : boxes) if (!boxesApart(bb, o, 8)) ok = false;
        if (!ok) continue;
        boxes.push_back(bb); c.shapes.push_back(rectPoly(x0, y0, x0 + w, y0 + h)); i++;
    }
    if (c.shapes.empty()) return c;
    int pinnable = (int)c.shapes.size();
    // A frame of four thin bars around the scene: the orthogonal visibility graph only has lines through shape edges and
    // endpoints, so without anything beyond it an outward-facing edge pin has no crossing line to be reached by.
    { int lo = -16, hi = span + 40;
      c.shapes.push_back(rectPoly(lo, lo, hi, lo + 2)); c.shapes.push_back(rectPoly(lo, hi - 2, hi, hi));
      c.shapes.push_back(rectPoly(lo, lo + 4, lo + 2, hi - 4)); c.shapes.push_back(rectPoly(hi - 2, lo + 4, hi, hi - 4)); }
    std::vector<P> taken;        // free points, junctions and checkpoints are kept >= 3 apart from each other
    auto freePoint = [&](P &out) {
        for (int t = 0; t < 60; t++) {
            P p{(double)irange(-8, span + 30), (double)irange(-8, span + 30)};
            bool ok = true;
            for (auto &q : taken) if (std::fabs(q.x - p.x) < 3 && std::fabs(q.y - p.y) < 3) ok = false;
            for (auto &s : c.shapes) { Box bb = bbox(s); if (p.x > bb.x0 - 4 && p.x < bb.x1 + 4 && p.y > bb.y0 - 4 && p.y < bb.y1 + 4) ok = false; }
            if (ok) { out = p; taken.push_back(p); return true; }
        }
        return false;
    };
    // pins: class 1 on up to 3 shapes, distinct positions
    int pinned = std::min<int>(irange(1, 3), pinnable);
    for (int s = 0; s < pinned; s++) {
        int np = irange(1, 5);
        bool excl = coin(1, 2);
        std::set<std::pair<double, double>> used;
        for (int q = 0; q < np; q++) {
            PinSpec p; p.shape = s; p.cls = 1; p.exclusive = excl; p.cost = coin(1, 4) ? irange(1, 30) : 0;
            Box bb = bbox(c.shapes[s]);
            double w = bb.x1 - bb.x0, h = bb.y1 - bb.y0;
            int side = irange(0, 4);       // 0 top 1 bottom 2 left 3 right 4 centre pin (all directions)
            p.proportional = coin(2, 3);
            p.inside = (side == 4 || !orth) ? 0 : pick(std::vector<double>{0, 0, 1});      // inside offsets only where direction lines give the pin visibility
            double t = irange(1, 3) / 4.0;
            if (p.proportional) {
                if (side == 0) { p.xo = t; p.yo = 0; p.dirs = Avoid::ConnDirUp; } else if (side == 1) { p.xo = t; p.yo = 1; p.dirs = Avoid::ConnDirDown; }
                else if (side == 2) { p.xo = 0; p.yo = t; p.dirs = Avoid::ConnDirLeft; } else if (side == 3) { p.xo = 1; p.yo = t; p.dirs = Avoid::ConnDirRight; }
                else { p.xo = 0.5; p.yo = 0.5; p.dirs = Avoid::ConnDirAll; }
            } else {
                double ax = irange(1, (int)w - 1), ay = irange(1, (int)h - 1);
                if (side == 0) { p.xo = ax; p.yo = 0; p.dirs = Avoid::ConnDirUp; } else if (side == 1) { p.xo = ax; p.yo = -1; p.dirs = Avoid::ConnDirDown; }
                else if (side == 2) { p.xo = 0; p.yo = ay; p.dirs = Avoid::ConnDirLeft; } else if (side == 3) { p.xo = -1; p.yo = ay; p.dirs = Avoid::ConnDirRight; }
                else { p.proportional = true; p.xo = 0.5; p.yo = 0.5; p.dirs = Avoid::ConnDirAll; }
            }
            if (side < 4 && coin(1, 5)) p.dirs = Avoid::ConnDirAll;
            P pos = pinPos(p, c.shapes[s]);
            if (!used.insert({pos.x, pos.y}).second) continue;          // duplicate pins are de-duplicated by the library's pin set
            c.pins.push_back(p);
        }
    }
    if (c.pins.empty()) return c;
    int nj = mode == 1 ? irange(1, 2) : 0;
    for (int j = 0; j < nj; j++) { P p; if (freePoint(p)) c.junctions.push_back(p); }
    // connectors: never more than the capacity of an exclusive class
    std::map<int, int> useOfShape;
    int nc = irange(1, 5);
    for (int i = 0; i < nc; i++) {
        ConnSpec kx;
        kx.dstKind = 1; kx.dstShape = irange(0, pinned - 1); kx.dstCls = 1;
        int cap = 0; bool excl = false;
        for (auto &p : c.pins) if (p.shape == kx.dstShape) { cap++; excl |= p.exclusive; }
        if (cap == 0) continue;
        if (excl && useOfShape[kx.dstShape] >= cap) continue;
        int sk = irange(0, 5);
        if (mode == 2) { kx.srcKind = 0; kx.dstKind = 0; if (!freePoint(kx.src) || !freePoint(kx.dst)) continue; int q = irange(1, 3); for (int z = 0; z < q; z++) { P p; if (freePoint(p)) kx.checkpoints.push_back(p); } c.conns.push_back(kx); continue; }
        if (mode == 1) {
            if (c.junctions.empty()) continue;
            kx.srcKind = 2; kx.srcJunction = irange(0, (int)c.junctions.size() - 1);
            if (coin(1, 2)) { kx.dstKind = 0; if (!freePoint(kx.dst)) continue; c.conns.push_back(kx); continue; }
        }

        else if (sk == 1 && pinned >= 2) {
            kx.srcKind = 1; kx.srcShape = (kx.dstShape + 1) % pinned; kx.srcCls = 1;
            int cap2 = 0; bool excl2 = false;
            for (auto &p : c.pins) if (p.shape == kx.srcShape) { cap2++; excl2 |= p.exclusive; }
            if (cap2 == 0 || (excl2 && useOfShape[kx.srcShape] >= cap2)) continue;
            useOfShape[kx.srcShape]++;
        } else { kx.srcKind = 0; if (!freePoint(kx.src)) continue; }
        useOfShape[kx.dstShape]++;
        int ncp = 0;
        for (int q = 0; q < ncp; q++) { P p; if (freePoint(p)) kx.checkpoints.push_back(p); }
        c.conns.push_back(kx);
    }
    // moves: a pinned shape is moved / resized (staying >= 8 from the others and >= 4 from free points), or a junction moved
    auto genMove = [&](std::vector<Poly> &cur, Move &m) {
        if (!c.junctions.empty() && coin(1, 4)) { m.kind = 1; m.idx = irange(0, (int)c.junctions.size() - 1); return freePoint(m.pos); }
        m.kind = 0; m.idx = irange(0, pinned - 1);
        for (int t = 0; t < 40; t++) {
            Box o = bbox(cur[m.idx]);
            int w = coin(1, 2) ? (int)(o.x1 - o.x0) : irange(4, 16), h = coin(1, 2) ? (int)(o.y1 - o.y0) : irange(4, 16);
            int x0 = (int)o.x0 + irange(-10, 10), y0 = (int)o.y0 + irange(-10, 10);
            Box nb{(double)x0, (double)y0, (double)x0 + w, (double)y0 + h};
            bool ok = true;
            for (size_t i = 0; i < cur.size(); i++) if ((int)i != m.idx && !boxesApart(nb, bbox(cur[i]), 8)) ok = false;
            auto near = [&](const P &p) { return p.x > nb.x0 - 4 && p.x < nb.x1 + 4 && p.y > nb.y0 - 4 && p.y < nb.y1 + 4; };
            for (auto &kx : c.conns) { if (kx.srcKind == 0 && near(kx.src)) ok = false; for (auto &q : kx.checkpoints) if (near(q)) ok = false; }
            for (auto &j : c.junctions) if (near(j)) ok = false;
            // absolute pin offsets must stay inside the resized shape
            for (auto &p : c.pins) if (p.shape == m.idx && !p.proportional && (p.xo >= w || p.yo >= h)) ok = false;
            // pins of one class must keep distinct positions on the resized shape
            { std::set<std::pair<double, double>> seen; Poly np = rectPoly(x0, y0, x0 + w, y0 + h);
              for (auto &p : c.pins) if (p.shape == m.idx) { P pp = pinPos(p, np); if (!seen.insert({pp.x, pp.y}).second) ok = false; } }
            if (!ok) continue;
            m.poly = rectPoly(x0, y0, x0 + w, y0 + h);
            cur[m.idx] = m.poly;
            return true;
        }
        return false;
    };
    std::vector<Poly> cur = c.shapes;
    if (!getenv("C11_NO_EARLY") && coin(1, 4)) { Move m; if (genMove(cur, m) && m.kind == 0) c.early.push_back(m); }
    int nm = getenv("C11_NO_LATER") ? 0 : irange(0, 2);
    for (int i = 0; i < nm; i++) { Move m; if (genMove(cur, m)) { if (m.kind == 1) { /* junction target must stay clear of the (moved) shapes: freePoint used the initial ones, re-check */ bool ok = true; for (auto &s : cur) { Box bb = bbox(s); if (m.pos.x > bb.x0 - 4 && m.pos.x < bb.x1 + 4 && m.pos.y > bb.y0 - 4 && m.pos.y < bb.y1 + 4) ok = false; } if (!ok) continue; } c.later.push_back(m); } }
    return c;
}
} // namespace

int main(int argc, char **argv) {
    std::vector<Prop> props;
    for (int mode : {0, 2}) {       // junction-attached ends are exercised by C12 (hyperedges); see DESIGN.md C11
        std::string n = mode == 0 ? "C11.pins" : (mode == 1 ? "C11.junctions" : "C11.checkpoints");
        props.push_back({n, mode == 0 ? 1.0 : 0.4,
            [n, mode] { Case c = gen_case(mode); RC_PRE(!c.conns.empty()); return record(n, c.str(), [&] { return eval_c11(c); }); },
            [](Reader &r) { return eval_c11(Case::parse(r)); }, nullptr});
    }
    // replay-only: junction-attached ends (known finding F23 lives in replays/C15)
    props.push_back({"C11.junctions", 0, nullptr, [](Reader &r) { return eval_c11(Case::parse(r)); }, nullptr});
    return run_main(argc, argv, props);
}
