// C01 (constraints satisfied or reported) and C02 (solve() is the weighted
// least-squares optimum) for vpsc::Solver, vpsc::IncSolver and libavoid's private
// copy Avoid::IncSolver.  Stateless problems, re-solve / addConstraint histories,
// and input-order permutations.
#include "common/vpsc_model.h"

using namespace verif;
using namespace vm;

namespace {
struct Op { int kind; int a, b; double x; bool eq; };   // 0 AddConstraint(a,b,x,eq) 1 SetDesired(a,x) 2 satisfy 3 solve
struct Case {
    int solver = INC;
    int call = 1;                  // 0 satisfy, 1 solve  (stateless cases)
    Prob p;
    std::vector<Op> ops;           // histories
    std::vector<int> vperm, cperm; // C02.perm
    std::string str() const {
        Writer w;
        w.tok("solver").i(solver).tok("call").i(call).nl();
        p.put(w);
        w.tok("ops").i(ops.size()).nl();
        for (auto &o : ops) w.i(o.kind).i(o.a).i(o.b).d(o.x).i(o.eq).nl();
        w.tok("vperm").i(vperm.size()); for (int x : vperm) w.i(x); w.nl();
        w.tok("cperm").i(cperm.size()); for (int x : cperm) w.i(x); w.nl();
        return w.str();
    }
    static Case parse(Reader &r) {
        Case c;
        r.expect("solver"); c.solver = r.i(); r.expect("call"); c.call = r.i();
        c.p = Prob::get(r);
        r.expect("ops"); size_t k = r.i();
        for (size_t i = 0; i < k; i++) { Op o; o.kind = r.i(); o.a = r.i(); o.b = r.i(); o.x = r.d(); o.eq = r.i(); c.ops.push_back(o); }
        r.expect("vperm"); k = r.i(); for (size_t i = 0; i < k; i++) c.vperm.push_back(r.i());
        r.expect("cperm"); k = r.i(); for (size_t i = 0; i < k; i++) c.cperm.push_back(r.i());
        return c;
    }
};

Outcome run_once(const Prob &p, int solver, bool solve) {
    if (solver == AVOID) { Live<NSavoid> L(p, true); return L.call(solve); }
    Live<NSvpsc> L(p, solver == INC);
    return L.call(solve);
}

void classes_c01(const Prob &p, Verdict &v) {
    bool viol = false, neg = false, dup = false;
    std::set<std::pair<int, int>> seen;
    for (auto &c : p.cs) {
        double sl = p.s[c.r] * p.d[c.r] - p.s[c.l] * p.d[c.l] - c.g;
        if (c.eq ? sl != 0 : sl < 0) viol = true;
        if (c.g < 0) neg = true;
        if (!seen.insert({c.l, c.r}).second) dup = true;
    }
    v.nontrivial = viol;
    if (p.hasEq()) v.cls("has-equality");
    if (neg) v.cls("has-negative-gap");
    if (dup) v.cls("has-duplicate-edge");
    if (!p.unitScale()) v.cls("scaled");
    if (p.n >= 30) v.cls("n>=30");
}

// ---------------------------------------------------------------- C01 stateless
Verdict eval_c01(const Case &c) {
    Verdict v;
    classes_c01(c.p, v);
    Outcome o = run_once(c.p, c.solver, c.call);
    judge_c01(c.p, o, c.solver, v);
    return v;
}

// ---------------------------------------------------------------- C01 histories
template <class NS> Verdict eval_history_t(const Case &c, bool optimal) {
    Verdict v;
    Prob cur = c.p;
    Live<NS> L(cur, true);
    int solves = 0, adds = 0;
    bool everFlagged = false;
    for (auto &op : c.ops) {
        if (op.kind == 0) { C k{op.a, op.b, op.x, op.eq}; cur.cs.push_back(k); L.add(k); adds++; continue; }
        if (op.kind == 1) { cur.d[op.a] = op.x; L.vs[op.a]->desiredPosition = op.x; continue; }
        Outcome o = L.call(op.kind == 3);
        solves++;
        Verdict step;
        judge_c01(cur, o, c.solver, step, everFlagged);
        if (!step.ok) { v = step; v.msg = fmt("after %d solves / %d addConstraint: ", solves, adds) + step.msg; break; }
        for (char f : o.flagged) everFlagged |= (bool)f;
        if (optimal && op.kind == 3 && !everFlagged) {
            Opt opt = qp_oracle(cur);
            if (!opt.certified) { v.inconclusive = true; continue; }
            judge_c02(cur, o, opt, c.solver, step, fmt(" (re-solve #%d)", solves).c_str());
            if (opt.nActive >= 1 && opt.maxBlock >= 3) v.nontrivial = true;
            if (!step.ok) { v.ok = false; v.msg = step.msg; v.sig = step.sig; break; }
        }
    }
    if (!optimal) { Verdict t; classes_c01(cur, t); v.nontrivial = t.nontrivial && solves >= 1; }
    if (solves >= 3) v.cls("history>=3-solves");
    if (adds) v.cls("history-with-addConstraint");
    if (everFlagged) v.cls("history-flagged");
    return v;
}
Verdict eval_history(const Case &c, bool optimal) {
    return c.solver == AVOID ? eval_history_t<NSavoid>(c, optimal) : eval_history_t<NSvpsc>(c, optimal);
}

// ---------------------------------------------------------------- C02 stateless
Verdict eval_c02(const Case &c) {
    Verdict v;
    Outcome o = run_once(c.p, c.solver, true);
    judge_c01(c.p, o, c.solver, v);
    if (!v.ok) return v;
    bool anyflag = false;
    for (char f : o.flagged) anyflag |= (bool)f;
    if (anyflag || o.threwUnsat) { v.cls("reported-unsat-skipped"); return v; }   // C02 only speaks about unflagged results
    Opt opt = qp_oracle(c.p);
    if (!opt.certified) { v.inconclusive = true; return v; }
    v.nontrivial = opt.nActive >= 1 && opt.maxBlock >= 3;
    if (opt.degenerate) v.cls("degenerate-optimum");
    if (opt.polished) v.cls("oracle-polished");
    if (!c.p.unitScale()) v.cls("scaled");
    if (c.p.hasEq()) v.cls("has-equality");
    if (opt.maxBlock >= 8) v.cls("block>=8");
    double wmin = 1e300, wmax = 0;
    for (double w : c.p.w) { wmin = std::min(wmin, w); wmax = std::max(wmax, w); }
    if (wmax / wmin >= 256) v.cls("weights-span>=2^8");
    judge_c02(c.p, o, opt, c.solver, v);
    return v;
}

// permuted variable ids / constraint order must reach the same certified optimum
Verdict eval_perm(const Case &c) {
    Verdict v;
    const Prob &p = c.p;
    Opt opt = qp_oracle(p);
    if (!opt.certified) { v.inconclusive = true; return v; }
    v.nontrivial = opt.nActive >= 1 && opt.maxBlock >= 3;
    Prob q;
    q.n = p.n; q.d.resize(p.n); q.w.resize(p.n); q.s.resize(p.n);
    for (int i = 0; i < p.n; i++) { q.d[c.vperm[i]] = p.d[i]; q.w[c.vperm[i]] = p.w[i]; q.s[c.vperm[i]] = p.s[i]; }
    for (size_t j = 0; j < p.cs.size(); j++) { C k = p.cs[c.cperm[j]]; k.l = c.vperm[k.l]; k.r = c.vperm[k.r]; q.cs.push_back(k); }
    Outcome o1 = run_once(p, c.solver, true), o2 = run_once(q, c.solver, true);
    for (auto *o : {&o1, &o2}) { for (char f : o->flagged) if (f) { v.cls("reported-unsat-skipped"); return v; } if (o->threwUnsat || o->threwChar) { v.cls("reported-unsat-skipped"); return v; } }
    judge_c02(p, o1, opt, c.solver, v, " (original order)");
    Outcome o2back = o2;
    for (int i = 0; i < p.n; i++) o2back.x[i] = o2.x[c.vperm[i]];
    judge_c02(p, o2back, opt, c.solver, v, " (permuted variable ids and constraint order)");
    return v;
}

// ---------------------------------------------------------------- generators
int maxN() { return tier_thorough() ? 300 : 40; }

Case gen_c01(int solver) {
    Case c;
    c.solver = solver;
    c.call = irange(0, 1);
    if (solver == STATIC) c.p = gen_prob(maxN(), DAG, false, true, true);      // documented domain: acyclic, inequalities (F2)
    else c.p = gen_prob(maxN(), irange(0, 4), true, true, true);
    return c;
}
Case gen_c02(int solver) {
    Case c;
    c.solver = solver;
    c.call = 1;
    if (solver == STATIC) c.p = gen_prob(maxN(), DAG, false, !getenv("VPSC_STATIC_NOSCALE"), true);
    else c.p = gen_prob(maxN(), coin(1, 2) ? DAG : WITNESS, true, true, true);
    return c;
}
Case gen_history(bool optimal) {
    Case c;
    c.solver = coin(1, 2) ? INC : AVOID;
    int maxn = tier_thorough() ? 60 : 20;
    c.p = optimal ? gen_prob(maxn, coin(1, 2) ? DAG : WITNESS, false, false, true) : gen_prob(maxn, irange(0, 4), true, false, true);
    int k = sized(1, 12);
    for (int i = 0; i < k; i++) {
        int t = irange(0, 9);
        Op o{0, 0, 0, 0, false};
        if (optimal) {
            if (t < 6) { o.kind = 1; o.a = irange(0, c.p.n - 1); o.x = grid(-256, 256, 4); }
            else o.kind = 3;
        } else {
            if (t < 3 && c.p.n >= 2) { o.kind = 0; o.a = irange(0, c.p.n - 1); o.b = irange(0, c.p.n - 1); if (o.a == o.b) continue; o.x = grid(-16, 24, 2); o.eq = coin(1, 10); }
            else if (t < 6) { o.kind = 1; o.a = irange(0, c.p.n - 1); o.x = grid(-256, 256, 4); }
            else o.kind = 2 + irange(0, 1);
        }
        c.ops.push_back(o);
    }
    c.ops.push_back({3, 0, 0, 0, false});
    return c;
}
Case gen_perm() {
    Case c = gen_c02(coin(1, 3) ? AVOID : (coin(1, 2) ? INC : STATIC));
    c.vperm.resize(c.p.n); std::iota(c.vperm.begin(), c.vperm.end(), 0);
    for (int i = c.p.n - 1; i > 0; i--) std::swap(c.vperm[i], c.vperm[irange(0, i)]);
    c.cperm.resize(c.p.cs.size()); std::iota(c.cperm.begin(), c.cperm.end(), 0);
    for (int i = (int)c.cperm.size() - 1; i > 0; i--) std::swap(c.cperm[i], c.cperm[irange(0, i)]);
    return c;
}
} // namespace

int main(int argc, char **argv) {
    std::vector<Prop> props;
    auto add = [&](const char *name, double w, std::function<Case()> g, std::function<Verdict(const Case &)> e) {
        std::string n = name;
        props.push_back({n, w, [n, g, e] { Case c = g(); return record(n, c.str(), [&] { return e(c); }, true); },
                         [e](Reader &r) { return e(Case::parse(r)); }, nullptr});
    };
    add("C01.inc", 1.0, [] { return gen_c01(INC); }, eval_c01);
    add("C01.avoid", 0.6, [] { return gen_c01(AVOID); }, eval_c01);
    add("C01.static", 0.4, [] { return gen_c01(STATIC); }, eval_c01);
    add("C01.history", 0.4, [] { return gen_history(false); }, [](const Case &c) { return eval_history(c, false); });
    add("C02.inc", 1.0, [] { return gen_c02(INC); }, eval_c02);
    add("C02.avoid", 0.6, [] { return gen_c02(AVOID); }, eval_c02);
    add("C02.static", 0.6, [] { return gen_c02(STATIC); }, eval_c02);
    add("C02.resolve", 0.3, [] { return gen_history(true); }, [](const Case &c) { return eval_history(c, true); });
    add("C02.perm", 0.3, gen_perm, eval_perm);
    return run_main(argc, argv, props);
}
