// C15, libFuzzer target: bytes -> a legal libavoid API history (shapes, pins, junctions,
// connectors, checkpoints, moves, deletions, transactions) -> oracle = AddressSanitizer,
// UBSan, the library's own assertions (thrown as vpsc::CriticalFailure), LeakSanitizer after
// the router is destroyed.
#include <fuzzer/FuzzedDataProvider.h>
#include <cstdint>
#include <cstdio>
#include <cstdlib>
#include <cstring>
#include <string>
#include <vector>
#include <set>
#include <unordered_set>
#include <algorithm>
#include <cstdarg>
#include <exception>
#include <unistd.h>
#include "libavoid/libavoid.h"
#include "libvpsc/assertions.h"
#include "libvpsc/rectangle.h"

extern "C" void __lsan_ignore_object(const void *p);
extern "C" int __lsan_do_recoverable_leak_check(void);
extern "C" void __sanitizer_set_death_callback(void (*)(void));

// With USE_ASSERT_EXCEPTIONS a known nudging assertion (F9/F18/F40) unwinds out of nudgeOrthogonalRoutes() past the raw-pointer
// list of shift segments built by buildOrthogonalNudgingSegments(), which therefore leaks.  A normal build would have
// stopped at the assertion, so these leaks are an artefact of the throwing build; leaks allocated elsewhere are reported.
extern "C" const char *__lsan_default_suppressions() { return "leak:buildOrthogonalNudgingSegments\n"; }

namespace {
struct Stat { uint64_t evals = 0, knownAsserts = 0; std::unordered_set<uint64_t> nontrivial; std::string sample[3]; std::set<std::string> known; std::string dir; uint64_t deletes = 0, multiTxn = 0, ctorUnwind = 0; bool inObstacleCtor = false; } S;
uint64_t fnv(const std::string &s) { uint64_t h = 1469598103934665603ull; for (unsigned char c : s) { h ^= c; h *= 1099511628211ull; } return h; }
void flush() {
    if (S.dir.empty()) return;
    std::string p = S.dir + "/stats.json";
    FILE *f = fopen(p.c_str(), "w");
    if (!f) return;
    fprintf(f, "{\"evaluations\":%llu,\"aborted_by_library_assert\":%llu,\"oracle_inconclusive\":0,\"distinct_nontrivial\":%zu,\"distinct_by_construction\":0,\"classes\":{\"history-with-delete\":%llu,\"history-with->=2-transactions\":%llu,\"assertion-inside-obstacle-constructor(transactions off; unjudged, worker stopped)\":%llu},\"excluded\":{},\"exhaustive\":[],\"samples\":[",
            (unsigned long long)S.evals, (unsigned long long)S.knownAsserts, S.nontrivial.size(), (unsigned long long)S.deletes, (unsigned long long)S.multiTxn, (unsigned long long)S.ctorUnwind);
    bool first = true;
    for (auto &x : S.sample) if (!x.empty()) { fprintf(f, "%s\"%s\"", first ? "" : ",", x.c_str()); first = false; }
    fprintf(f, "]}\n");
    fclose(f);
    f = fopen((S.dir + "/nontrivial.u64").c_str(), "wb");
    if (f) { std::vector<uint64_t> v(S.nontrivial.begin(), S.nontrivial.end()); if (!v.empty()) fwrite(v.data(), 8, v.size(), f); fclose(f); }
}
std::string sigOf(vpsc::CriticalFailure &f);
// Only reachable because the library is built with USE_ASSERT_EXCEPTIONS: with transactions off, the ShapeRef /
// JunctionRef constructor processes the transaction itself; when a (known) assertion is thrown from there, unwinding
// runs ~Obstacle() on the half-registered obstacle, whose COLA_ASSERT(m_active == false) throws a second exception
// out of a destructor -> std::terminate.  That is an artefact of the throwing-assert build, not library behaviour
// (a normal build would have stopped at the first assertion), so the case is counted as unjudged and this worker
// stops; anything else that reaches terminate is a crash as usual.
void onTerminate() {
    std::string sig2;
    if (std::exception_ptr e = std::current_exception()) { try { std::rethrow_exception(e); } catch (vpsc::CriticalFailure &f) { sig2 = sigOf(f); } catch (...) {} }
    if (S.inObstacleCtor && sig2 == "assert:obstacle.cpp:m_active == false") { S.ctorUnwind++; S.evals++; flush(); fprintf(stderr, "NOTE: assertion inside an obstacle constructor with transactions off; worker stops\n"); _exit(0); }
    abort();
}
void setup() {
    static bool done = false;
    if (done) return;
    done = true;
    if (const char *d = getenv("VERIF_DIR")) S.dir = d;
    if (const char *k = getenv("VERIF_KNOWN_SIGS")) { std::string ks = k, cur; for (char c : ks + ",") { if (c == ',') { if (!cur.empty()) S.known.insert(cur); cur.clear(); } else cur += c; } }
    std::set_terminate(onTerminate);
    atexit(flush);      // (libFuzzer owns the sanitizer death callback: it is what writes the crash artifact)
}
std::string sigOf(vpsc::CriticalFailure &f) {
    std::string w = f.what(), expr, file;
    size_t a = w.find("expression: "), b = w.find("\n", a == std::string::npos ? 0 : a);
    if (a != std::string::npos) expr = w.substr(a + 12, b - a - 12);
    size_t c = w.find(" of ", b == std::string::npos ? 0 : b), d = w.find("\n", c == std::string::npos ? 0 : c);
    if (c != std::string::npos) file = w.substr(c + 4, d - c - 4);
    size_t sl = file.rfind('/');
    if (sl != std::string::npos) file = file.substr(sl + 1);
    return "assert:" + file + ":" + expr;
}
} // namespace

extern "C" int LLVMFuzzerTestOneInput(const uint8_t *data, size_t size) {
    setup();
    S.inObstacleCtor = false;
    vpsc::Rectangle::setXBorder(0); vpsc::Rectangle::setYBorder(0);
    FuzzedDataProvider fdp(data, size);
    using namespace Avoid;
    std::string trace;
    static const bool traceLive = getenv("VERIF_TRACE_LIVE") != nullptr;
    auto T = [&](const char *fmt, ...) { char b[160]; va_list ap; va_start(ap, fmt); vsnprintf(b, sizeof b, fmt, ap); va_end(ap); if (trace.size() < 900) trace += b; if (traceLive) fputs(b, stderr); };
    bool orth = fdp.ConsumeBool();
    Router *router = new Router(orth ? OrthogonalRouting : PolyLineRouting);
    bool transactions = fdp.ConsumeIntegralInRange<int>(0, 4) != 0;
    router->setTransactionUse(transactions);
    router->setRoutingParameter(segmentPenalty, orth ? 10 : fdp.PickValueInArray({0.0, 10.0}));
    router->setRoutingParameter(shapeBufferDistance, fdp.PickValueInArray({0.0, 0.0, 2.0}));
    router->setRoutingParameter(idealNudgingDistance, fdp.PickValueInArray({4.0, 1.0}));
    if (fdp.ConsumeBool()) router->setRoutingOption(nudgeOrthogonalSegmentsConnectedToShapes, true);
    // improveHyperedgeRoutesMovingAddingAndDeletingJunctions is only generated with transactions on.  Its documented
    // protocol ("read newAndDeletedObjectListsFromHyperedgeImprovement() ... before processTransaction() is called
    // again", router.h) cannot be honoured with transactions off: one API call (e.g. the ConnRef constructor) then
    // processes several times, the lists of the first pass are discarded by the second, and the client has no way to
    // learn that a handle it holds -- even the connector being constructed -- has been deleted.  Not a legal history.
    // (The re-entrancy crash of that mode, F33, was repaired by 02941db and is covered by C15reg mode 13, which keeps no handle.)
    bool improve = transactions && fdp.ConsumeBool();
    if (improve) router->setRoutingOption(improveHyperedgeRoutesMovingAddingAndDeletingJunctions, true);
    T("%s txn=%d imp=%d;", orth ? "orth" : "poly", (int)transactions, (int)improve);
    // With transactions off the ShapeRef / JunctionRef constructor would process the transaction itself, and a (known)
    // assertion thrown from there unwinds through the half-built obstacle: ~Obstacle() then asserts again (std::terminate)
    // or its pins touch freed memory -- artefacts of the throwing-assert build.  So obstacles are constructed with
    // transactions switched on for the duration of the constructor and the transaction is processed right afterwards by an
    // explicit call, which does the same work from a place an exception can leave cleanly.
    auto newObstacle = [&](auto make) {
        if (transactions) return make();
        router->setTransactionUse(true);
        auto *o = make();
        router->setTransactionUse(false);
        router->processTransaction();
        return o;
    };
    struct Sh { ShapeRef *s; bool isNew; std::set<int> classes; std::set<int> pinKeys; };
    std::vector<Sh> shapes;
    std::vector<JunctionRef *> juncs; std::vector<bool> juncNew;
    std::vector<ConnRef *> conns;
    std::vector<int> connJ[2];          // junction index attached at the source / target end of each connector, -1 if none
    int nTxn = 0, nDel = 0;
    bool abandoned = false;
    // Known finding F34: a hyperedge with a cycle (two junctions joined by two connector paths) is skipped by the
    // improver with a warning and its tree is leaked.  Excluded by construction: junction-junction connectors
    // never close a cycle (union-find over junction indices, conservative: never split).
    std::vector<int> uf;
    auto find = [&](int a) { while (uf[a] != a) a = uf[a] = uf[uf[a]]; return a; };
    auto juncIndex = [&](JunctionRef *j) { for (size_t i = 0; i < juncs.size(); i++) if (juncs[i] == j) return (int)i; return -1; };
    // The documented protocol of improveHyperedgeRoutesMovingAddingAndDeletingJunctions: after processing, read
    // newAndDeletedObjectListsFromHyperedgeImprovement() and stop referring to deleted objects; new ones may be used.
    auto sync = [&]() {
        if (!improve) return;
        HyperedgeNewAndDeletedObjectLists l = router->newAndDeletedObjectListsFromHyperedgeImprovement();
        for (JunctionRef *j : l.deletedJunctionList) { int i = juncIndex(j); if (i >= 0) juncs[i] = nullptr; }
        for (ConnRef *c : l.deletedConnectorList) for (size_t i = 0; i < conns.size(); i++) if (conns[i] == c) conns[i] = nullptr;
        for (JunctionRef *j : l.newJunctionList) if (juncIndex(j) < 0 && std::find(l.deletedJunctionList.begin(), l.deletedJunctionList.end(), j) == l.deletedJunctionList.end()) { juncs.push_back(j); juncNew.push_back(true); uf.push_back((int)uf.size()); }      // its JunctionAdd is still queued
        for (ConnRef *c : l.newConnectorList) if (std::find(conns.begin(), conns.end(), c) == conns.end() && std::find(l.deletedConnectorList.begin(), l.deletedConnectorList.end(), c) == l.deletedConnectorList.end()) { conns.push_back(c); connJ[0].push_back(-1); connJ[1].push_back(-1); }
        if (!(l.newConnectorList.empty() && l.changedConnectorList.empty()))
            for (size_t i = 0; i < conns.size(); i++) if (conns[i]) {
                std::pair<ConnEnd, ConnEnd> e = conns[i]->endpointConnEnds();
                int a = e.first.junction() ? juncIndex(e.first.junction()) : -1, b = e.second.junction() ? juncIndex(e.second.junction()) : -1;
                if (a >= 0 && b >= 0) uf[find(a)] = find(b);
            }
    };
    auto otherJunc = [&](int c, int which) {      // junction (index) at the other end of connector c, queued or processed
        if (connJ[1 - which][c] >= 0) return connJ[1 - which][c];
        std::pair<ConnEnd, ConnEnd> e = conns[c]->endpointConnEnds();
        JunctionRef *j = (which == 0 ? e.second : e.first).junction();
        return j ? juncIndex(j) : -1;
    };
    try {
        int steps = fdp.ConsumeIntegralInRange<int>(1, 40);
        for (int st = 0; st < steps && fdp.remaining_bytes() > 0; st++) {
            int op = fdp.ConsumeIntegralInRange<int>(0, 13);
            auto coord = [&] { return (double)fdp.ConsumeIntegralInRange<int>(-10, 90); };
            auto liveShape = [&](bool notNew) { std::vector<int> v; for (size_t i = 0; i < shapes.size(); i++) if (shapes[i].s && !(notNew && shapes[i].isNew)) v.push_back((int)i); return v; };
            auto liveConn = [&] { std::vector<int> v; for (size_t i = 0; i < conns.size(); i++) if (conns[i]) v.push_back((int)i); return v; };
            auto liveJunc = [&](bool notNew) { std::vector<int> v; for (size_t i = 0; i < juncs.size(); i++) if (juncs[i] && !(notNew && juncNew[i])) v.push_back((int)i); return v; };
            auto pickOf = [&](const std::vector<int> &v) { return v[fdp.ConsumeIntegralInRange<size_t>(0, v.size() - 1)]; };
            int lastJunc = -1, madeJunc = -1;     // a connector is never attached to the same junction at both ends
            auto makeEnd = [&]() -> ConnEnd {
                int k = fdp.ConsumeIntegralInRange<int>(0, 3);
                if (k == 1) { std::vector<int> c; for (size_t i = 0; i < shapes.size(); i++) if (shapes[i].s && !shapes[i].classes.empty()) c.push_back((int)i); if (!c.empty()) { int s = pickOf(c); int cls = *shapes[s].classes.begin(); T("pin(%d,%d) ", s, cls); return ConnEnd(shapes[s].s, cls); } }
                if (k == 2) { auto lj = liveJunc(false); if (!lj.empty()) { int j = pickOf(lj); if (lastJunc < 0 || find(j) != find(lastJunc)) { if (lastJunc >= 0) uf[find(j)] = find(lastJunc); lastJunc = j; madeJunc = j; T("junc%d ", j); return ConnEnd(juncs[j]); } } }
                double x = coord(), y = coord(); T("pt(%g,%g) ", x, y);
                return ConnEnd(Point(x, y));
            };
            switch (op) {
                case 0: case 1: { double x = coord(), y = coord(), w = fdp.ConsumeIntegralInRange<int>(1, 30), h = fdp.ConsumeIntegralInRange<int>(1, 30); Rectangle r(Point(x, y), Point(x + w, y + h)); ShapeRef *ns = newObstacle([&] { return new ShapeRef(router, r); }); shapes.push_back({ns, transactions, {}, {}}); T("S[%g,%g,%g,%g];", x, y, x + w, y + h); break; }
                case 2: { auto ls = liveShape(false); if (ls.empty()) break; int s = pickOf(ls); int cls = fdp.ConsumeIntegralInRange<int>(1, 2);
                          static const double offs[5] = {ATTACH_POS_LEFT, 0.25, ATTACH_POS_CENTRE, 0.75, ATTACH_POS_RIGHT};
                          double xo = offs[fdp.ConsumeIntegralInRange<int>(0, 4)], yo = offs[fdp.ConsumeIntegralInRange<int>(0, 4)];
                          ConnDirFlags dirs = (ConnDirFlags)fdp.ConsumeIntegralInRange<int>(0, 15);
                          if (!shapes[s].pinKeys.insert(cls * 1000000 + (int)(xo * 100) * 1000 + (int)(yo * 100) * 10 + 0).second) break;      // identical pins are not created twice
                          auto *pin = new ShapeConnectionPin(shapes[s].s, cls, xo, yo, true, 0, dirs); pin->setExclusive(fdp.ConsumeBool()); shapes[s].classes.insert(cls); T("P%d(%d,%g,%g,%d);", s, cls, xo, yo, (int)dirs); break; }
                case 3: { double x = coord(), y = coord(); JunctionRef *nj = newObstacle([&] { return new JunctionRef(router, Point(x, y)); }); juncs.push_back(nj); juncNew.push_back(transactions); uf.push_back((int)uf.size()); T("J(%g,%g);", x, y); break; }
                case 4: case 5: { T("C:"); madeJunc = -1; ConnEnd a = makeEnd(); int ja = madeJunc; madeJunc = -1; ConnEnd b = makeEnd(); int jb = madeJunc; connJ[0].push_back(ja); connJ[1].push_back(jb); ConnRef *c = new ConnRef(router, a, b); conns.push_back(c); /* its routing type is the router's; with transactions off and hyperedge improvement the connector may already have been deleted: see sync() */ T(";"); break; }
                case 6: { auto lc = liveConn(); if (lc.empty()) break; int c = pickOf(lc); std::vector<Checkpoint> cps; int k = fdp.ConsumeIntegralInRange<int>(0, 2); for (int i = 0; i < k; i++) cps.push_back(Checkpoint(Point(coord(), coord()))); conns[c]->setRoutingCheckpoints(cps); T("K%d:%d;", c, k); break; }
                case 7: { auto ls = liveShape(false); if (ls.empty()) break; int s = pickOf(ls); if (fdp.ConsumeBool()) { double dx = fdp.ConsumeIntegralInRange<int>(-20, 20), dy = fdp.ConsumeIntegralInRange<int>(-20, 20); router->moveShape(shapes[s].s, dx, dy); T("M%d+(%g,%g);", s, dx, dy); } else { double x = coord(), y = coord(), w = fdp.ConsumeIntegralInRange<int>(1, 30), h = fdp.ConsumeIntegralInRange<int>(1, 30); Rectangle r(Point(x, y), Point(x + w, y + h)); router->moveShape(shapes[s].s, r); T("M%d=[%g,%g,%g,%g];", s, x, y, x + w, y + h); } break; }
                case 8: { auto ls = liveShape(true); if (ls.empty()) break; int s = pickOf(ls); router->deleteShape(shapes[s].s); shapes[s].s = nullptr; nDel++; T("DS%d;", s); break; }
                case 9: { auto lc = liveConn(); if (lc.empty()) break; int c = pickOf(lc); router->deleteConnector(conns[c]); conns[c] = nullptr; nDel++; T("DC%d;", c); break; }
                case 10: { auto lj = liveJunc(true); if (lj.empty()) break; int j = pickOf(lj);
                           if (fdp.ConsumeBool()) { double x = coord(), y = coord(); router->moveJunction(juncs[j], Point(x, y)); T("MJ%d(%g,%g);", j, x, y); }
                           else { router->deleteJunction(juncs[j]); juncs[j] = nullptr; nDel++; T("DJ%d;", j); } break; }
                case 11: { auto lc = liveConn(); if (lc.empty()) break; int c = pickOf(lc); int which = fdp.ConsumeBool() ? 0 : 1; T("E%d.%d:", c, which); lastJunc = otherJunc(c, which); madeJunc = -1; ConnEnd e = makeEnd(); connJ[which][c] = madeJunc; if (which == 0) conns[c]->setSourceEndpoint(e); else conns[c]->setDestEndpoint(e); T(";"); break; }
                default: { router->processTransaction(); nTxn++; for (auto &s : shapes) s.isNew = false; for (size_t j = 0; j < juncNew.size(); j++) juncNew[j] = false;
                           sync();
                           for (ConnRef *c : conns) if (c) { const PolyLine &r = c->displayRoute(); for (size_t i = 0; i < r.size(); i++) if (!(r.ps[i].x == r.ps[i].x)) { fprintf(stderr, "VIOLATION-DETAIL: NaN in a route after %s\n", trace.c_str()); __builtin_trap(); } }
                           T("T;"); break; }
            }
            if (!transactions) { for (auto &sh : shapes) sh.isNew = false; for (size_t j = 0; j < juncNew.size(); j++) juncNew[j] = false; sync(); }
        }
        if (fdp.ConsumeBool()) { router->processTransaction(); nTxn++; T("T;"); }
    } catch (vpsc::CriticalFailure &f) {
        std::string sig = sigOf(f);
        if (!S.known.count(sig)) { flush(); fprintf(stderr, "VIOLATION-DETAIL: library assertion on a legal history: %s\nSIGNATURE: %s\nhistory: %s\n", f.what().c_str(), sig.c_str(), trace.c_str()); __builtin_trap(); }
        S.knownAsserts++;
        abandoned = true;                      // state undefined after the assertion: do not destroy, do not count as a leak
        __lsan_ignore_object(router);
    }
    if (getenv("VERIF_TRACE")) fprintf(stderr, "TRACE: %s\n", trace.c_str());
    if (!abandoned) delete router;             // destroying a router with queued actions / live objects is part of the history
    S.evals++;
    if ((S.evals & 1023) == 0) flush();
    if (nDel) S.deletes++;
    if (nTxn >= 2) S.multiTxn++;
    if (!abandoned && nDel >= 1 && nTxn >= 2) { if (S.nontrivial.insert(fnv(trace)).second) { size_t k = S.nontrivial.size(); if (k == 10 || k == 200 || k == 2000) S.sample[k == 10 ? 0 : (k == 200 ? 1 : 2)] = trace; } }
    return 0;
}
