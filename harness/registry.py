# Per-property check configuration consumed by ../check.
# stage: one harness binary run as `shards` parallel processes; `cases` is the
# total over shards of rapidcheck max_success (each Prop in the harness scales
# it by its own weight); `size` is rapidcheck max_size.

def stage(name, harness=None, flavour="asan", quick=None, thorough=None, env=None, props=None, case_timeout=300, kind="rapidcheck", replay_only=False):
    return dict(name=name, harness=harness or name, flavour=flavour, quick=quick, thorough=thorough,
                env=env or {}, props=props or [], case_timeout=case_timeout, kind=kind, replay_only=replay_only)

CHECKS = {}

# properties not (yet) claimed, with the reason shown in MANIFEST.not_applicable
NOT_APPLICABLE = {
}
for _i in range(1, 21):
    NOT_APPLICABLE["C%02d" % _i] = "check under construction in this round: not claimed until its harness is committed"

# "fix:" commits made to /repo (genuine defects found by these checks)
FIX_COMMITS = ["3828509 (C06 reroute estimate: rotated frame carried to the next edge)", "5c6fca1 (C06 reroute estimate: end points on opposite sides of an edge)", "02941db (C15 processTransaction re-entrancy with transactions off)", "e107f1d (C15 queued endpoint change to an obstacle deleted in the same transaction)", "077756f (C15 pin constructor ordering)", "2226871 (C15 nested processTransaction from pin destructor)", "5170889 (C15 ~Router pending additions)", "d269b3c (C15 HyperedgeImprover leak)", "24c34d5 (C19 peel on edgeless graph)", "7efd154 (C15 ConnRef ctor with transactions off)", "b7b870c (C02 static Solver split with scales)", "055d977 (C17 floyd_warshall)", "48d1978 (C15 ActionInfo::firstMove)", "c551cd9 (C06 calcRouteDist)",
               "30473cc (C20 CmpNodePos)", "9f592b9 (C02 IncSolver::solve)"]
HOOK_COMMITS = []

CHECKS["C17"] = dict(
    technique="rapidcheck property-based testing: generated multigraphs vs. an independent Bellman-Ford reference model",
    level_text="Generated-input search (rapidcheck, parallel shards) over undirected weighted multigraphs; every matrix entry of "
               "johnsons, floyd_warshall, dijkstra and of the layout's D/G matrices is compared with an independent "
               "long-double Bellman-Ford, plus diagonal, symmetry and mutual agreement.  Exploration, not proof: sampled graphs only.",
    level_note="Trusts the harness's Bellman-Ford and the 1e-9 relative tolerance stated in the property; T=double only; "
               "non-negative weights.",
    stages=[stage("C17", quick=dict(cases=64000, size=100, shards=8),
                  thorough=dict(cases=1600000, size=100, shards=16))],
    rule="rapidcheck-generated undirected multigraphs (n<=30 quick, <=300 thorough; six shape families x six weight "
         "families incl. empty weight array, zero, fractional and log-uniform weights) given to johnsons, "
         "floyd_warshall, dijkstra(every source) and to ConstrainedFDLayout(readLinearD/readLinearG); oracle = "
         "independent long-double Bellman-Ford.  Non-trivial = graph is disconnected or has a parallel edge, "
         "self-loop, zero weight or (layout) a non-positive edge length; distinct = FNV-1a of the case text.",
    min_nontrivial=dict(quick=2000, thorough=100000),
    assumptions=["edge weights are non-negative (Dijkstra's domain; every caller passes lengths)",
                 "diagonal of readLinearG is not part of the documented matrix (never written by the library)"],
)

CHECKS["C16"] = dict(
    stages=[stage("C16", quick=dict(cases=400000, size=100, shards=12),
                  thorough=dict(cases=24000000, size=100, shards=16))],
    technique="exhaustive enumeration of small lattices + rapidcheck random tuples, against exact 128-bit integer/rational reference predicates",
    level_text="Exhaustive over every point triple on the 6x6 lattice, every quadruple on the 5x5 (thorough: 6x6) lattice and every "
               "triangle / simple quadrilateral on 5x5 x every query point; random tuples (collinear, touching, parallel, "
               "shared-endpoint and zero-length configurations forced by construction) with integer and half-integer "
               "coordinates up to 2^20.  Every predicate and its swap/reverse symmetries are compared with an exact "
               "rational reference; exhaustive on the stated lattices, sampled beyond them.",
    level_note="Reference semantics are those the code and its callers implement (pointOnLine = open segment, segmentIntersect = "
               "proper crossing, segmentIntersectPoint = closed segments; see DESIGN.md C16); inPoly is judged on strictly convex "
               "polygons of the library's orientation, inPolyGen on simple polygons; the intersection point is compared to 1e-12 "
               "(lattice) / 2e-3 absolute at 2^20 (1e-9 relative).",
    rule="exhaustive lattices (every tuple is distinct by construction; non-trivial = degenerate: some three of the points "
         "collinear or repeated, or the query point on the polygon border) plus rapidcheck random tuples with forced "
         "degeneracies (non-trivial by the same rule; distinct by FNV-1a of the case text)",
    exhaustive=True,
    min_nontrivial=dict(quick=100000, thorough=1000000),
    assumptions=["coordinates are integers or half-integers below 2^21 in magnitude, so every product in the predicates is exact in double"],
)

CHECKS["C01"] = dict(
    stages=[stage("C01", harness="VPSC", props=["C01."], case_timeout=120,
                  quick=dict(cases=120000, size=100, shards=12),
                  thorough=dict(cases=4000000, size=100, shards=16))],
    technique="rapidcheck property-based testing: generated VPSC problems and addConstraint/move/re-solve histories against a "
              "constraint-residual validity predicate and a Bellman-Ford positive-cycle feasibility oracle",
    level_text="Generated-input search over variable counts, desired positions, weights, scales and constraint multigraphs "
               "(DAG, cyclic, chains with duplicates, witness-feasible, near-infeasible; equalities; negative/zero gaps) for "
               "vpsc::IncSolver, vpsc::Solver and libavoid's private Avoid::IncSolver, with satisfy() and solve(), plus histories "
               "of addConstraint / change-desired-position / re-solve on one live solver.  Every unflagged constraint is "
               "re-evaluated on the returned positions (1e-6), positions must be finite, and for inequality-only unit-scale "
               "systems 'something flagged or thrown' must coincide with an independent positive-cycle test.",
    level_note="The static vpsc::Solver is only exercised on its documented domain (acyclic, inequalities only; see known finding F2). "
               "The property's 'iff' is checked at existence level (some constraint flagged <=> system infeasible), not which constraint.",
    rule="rapidcheck-generated problems (n<=40 quick, <=300 thorough) over five constraint-graph shapes x three solvers x "
         "{satisfy, solve}, plus histories of up to 12 operations; non-trivial = at least one constraint is violated by the "
         "desired positions (so the solver has to merge); distinct by FNV-1a of the case text",
    min_nontrivial=dict(quick=5000, thorough=200000),
    assumptions=["gaps are multiples of 1/2 so feasibility of the difference system is decided exactly",
                 "constraints never have left == right"],
)

CHECKS["C02"] = dict(
    stages=[stage("C02", harness="VPSC", props=["C02."], case_timeout=120,
                  quick=dict(cases=60000, size=100, shards=12),
                  thorough=dict(cases=400000, size=100, shards=16))],
    technique="rapidcheck property-based testing against an independent self-certifying QP oracle (Hildreth dual ascent + "
              "active-set polish + duality-gap certificate); permutation metamorphic relation",
    level_text="Generated feasible VPSC instances (acyclic with weights 2^-3..2^6 and scales, or cyclic built from a witness "
               "placement with many tight constraints and equalities) solved by vpsc::IncSolver, vpsc::Solver and "
               "Avoid::IncSolver; re-solve histories after desired positions move; permuted variable ids and constraint order.  "
               "Each result is compared (1e-5 relative to the problem scale) with an optimum computed independently and "
               "certified by a duality-gap bound, so a failure is a certificate and an uncertified case is counted "
               "inconclusive, never reported.",
    level_note="Trusts the oracle's certificate arithmetic (long double).  Instances where a constraint is reported unsatisfiable "
               "are outside the property and skipped (counted).",
    rule="rapidcheck-generated feasible problems (n<=40 quick, <=300 thorough); non-trivial = the certified optimum has at "
         "least one active constraint and a block of >= 3 variables; distinct by FNV-1a of the case text",
    min_nontrivial=dict(quick=4000, thorough=200000),
    assumptions=["weights are positive powers of two in [2^-3, 2^6]; scales in {0.5,1,2,4} on acyclic systems only"],
)

CHECKS["C09"] = dict(
    stages=[stage("C09", quick=dict(cases=120000, size=100, shards=16), thorough=dict(cases=1200000, size=100, shards=16), case_timeout=300)],
    technique="rapidcheck property-based testing: generated rectangle sets against a pairwise-overlap validity predicate; "
              "constraint sets checked by topological sort and by sampling satisfying placements",
    level_text="Generated rectangle sets (random, identical copies, 1e-3-thin, lattice-aligned ties, nested, chains; "
               "global borders 0/0.5/3) through all three removeoverlaps overloads: no pair overlaps by more than 1e-6 in both axes "
               "(border included), sizes preserved, global borders restored, positions finite.  generateXConstraints (with and "
               "without neighbour lists) and generateYConstraints must be acyclic and satisfiable, and placements obtained by "
               "solving them for several desired-position vectors (all-equal, reversed, random) must be overlap free.",
    level_note="The 'fixed rectangles move <1%' clause is only judged where weight 10000 can deliver it (exactly one fixed "
               "rectangle, a-priori displacement bound below 0.5% of the average size); everything else is the open known "
               "finding F7 and is counted under excluded_by_construction.  'Any placement' is sampled, not enumerated.",
    rule="rapidcheck-generated rectangle sets (n<=40 quick, <=200 thorough; seven families) x overload x fixed subset x border; "
         "non-trivial = at least one pair overlaps initially; distinct by FNV-1a of the case text",
    min_nontrivial=dict(quick=5000, thorough=200000),
    assumptions=["rectangle widths/heights may change by floating-point rounding of moveMinX/moveMinY (<=1e-8 relative), as the library's own assertion allows"],
)

CHECKS["C03"] = dict(
    stages=[stage("C03", harness="ROUTE", props=["C03."], quick=dict(cases=40000, size=100, shards=16), thorough=dict(cases=800000, size=100, shards=16), case_timeout=600)],
    technique="rapidcheck property-based testing: generated lattice scenes routed by libavoid, judged by an independent exact "
              "segment-versus-convex-interior predicate, with a clearance-based path-existence oracle as the guard",
    level_text="Generated scenes of interior-disjoint lattice rectangles and convex polygons (30% 'tight': butted and edge-aligned), "
               "1-6 connectors with free endpoints, both routing modes, buffer 0/1/2.5, random penalties, nudging distance and all "
               "boolean routing options.  A second family (C03.side) puts one end of a single orthogonal connector exactly on a side of a shape's routing box "
               "(bounding box grown by the buffer distance 0/0.5/1/2, strictly between the corners; existence of a path is certified from the point "
               "one unit further out).  After processTransaction() both displayRoute() and route() of every connector must have "
               ">=2 points, start/end exactly at the attachments and have no segment through the open interior of a shape that "
               "does not contain an endpoint - required whenever the harness's own search finds a path with positive clearance.",
    level_note="Connectors for which only a zero-clearance corridor exists are not judged (libavoid deliberately blocks sight lines "
               "between butted shapes) and are counted.  Pin attachments are covered by C11, hyperedges by C12.",
    rule="rapidcheck-generated scenes (<=12 shapes quick, <=16 thorough); non-trivial = the straight segment between a judged "
         "connector's endpoints passes through a shape interior, so the route has to bend; distinct by FNV-1a of the case text",
    min_nontrivial=dict(quick=1000, thorough=50000),
    max_aborted_frac=0.004,
    assumptions=["orthogonal routing is judged against the shapes themselves but path existence against their bounding boxes (what the orthogonal router uses)"],
)

CHECKS["C04"] = dict(
    stages=[stage("C04", harness="ROUTE", props=["C04."], quick=dict(cases=30000, size=100, shards=16), thorough=dict(cases=600000, size=100, shards=16), case_timeout=600)],
    technique="rapidcheck property-based testing against an independent visibility-graph Dijkstra reference model (with bend states for the penalised variant)",
    level_text="Generated scenes of separated (gap >= 1) lattice rectangles and convex polygons, polyline routing, all penalties 0: "
               "route length must equal the harness's own visibility-graph shortest path to 1e-6.  With segmentPenalty in {1,5,50}: "
               "length + penalty*bends must lie between the optimum over all visibility paths and the optimum over paths whose "
               "bends wrap the corner they turn at (the library prunes other bends); the evidence reports how often the two coincide.",
    level_note="Oracle visibility uses the same exact interior predicate as C03 (long double, 1e-9 margin on lattice input).",
    rule="rapidcheck-generated separated scenes (<=10 shapes quick, <=14 thorough), <=4 connectors; non-trivial = the route has >=1 bend; distinct by FNV-1a of the case text",
    min_nontrivial=dict(quick=800, thorough=40000),
    max_aborted_frac=0.005,
    assumptions=[],
)

CHECKS["C05"] = dict(
    stages=[stage("C05", harness="ROUTE", props=["C05."], quick=dict(cases=60000, size=100, shards=16), thorough=dict(cases=800000, size=100, shards=16), case_timeout=600)],
    technique="rapidcheck property-based testing against an independent Hanan-grid Dijkstra over (node, heading); exhaustive table check of the bend estimator against a 0-1 BFS",
    level_text="Generated scenes of separated lattice rectangles, orthogonal connectors with free endpoints and random ConnDirFlags, six "
               "segment penalties, optional shape buffer: every segment of route() and displayRoute() is exactly axis-parallel and "
               "length + penalty*bends of route() equals the optimum of the harness's own grid search to 1e-6.  Avoid::bends is checked "
               "exhaustively (48 relative positions x 4 x 4 directions) to never exceed the true minimum number of bends.",
    level_note="The grid oracle works on bounding boxes inflated by the buffer distance; curr==dest is outside the estimator's domain.",
    rule="rapidcheck-generated scenes (<=9 rectangles quick, <=12 thorough), <=3 connectors; non-trivial = the optimum has >=1 bend and a rectangle meets the endpoints' bounding box; plus the 768-entry estimator table (each entry distinct by construction)",
    exhaustive=False,
    min_nontrivial=dict(quick=800, thorough=40000),
    max_aborted_frac=0.005,
    assumptions=[],
)

CHECKS["C06"] = dict(
    stages=[stage("C06", quick=dict(cases=24000, size=100, shards=16), thorough=dict(cases=400000, size=100, shards=16), case_timeout=600)],
    technique="rapidcheck model-based testing of API histories: a scene model is driven alongside the router and, at every transaction "
              "boundary, compared differentially with a freshly constructed router on the model's scene",
    level_text="Generated histories (2-14 operations after the first routing: add shape, moveShape absolute/relative incl. resize, "
               "deleteShape, move endpoint, add/delete connector, processTransaction; transactions off in 20% of runs) that respect "
               "the documented preconditions, in both routing modes.  At every transaction boundary every route must be valid for the "
               "model's current scene and cost exactly (1e-6) what a fresh router computes for that scene (Euclidean length + "
               "penalty*bends, or Manhattan length + penalty*bends of route()); a following empty transaction must return false "
               "and leave every route bit-identical.",
    level_note="Shapes stay >= 1 apart and endpoints >= 1 away from shapes at all times, so both routers face scenes where the optimum "
               "is well defined (C04/C05's domain).  The differential oracle trusts a fresh router's optimality, which C04/C05 check separately.",
    rule="rapidcheck-generated operation sequences over a live scene model; non-trivial = the history has >= 2 transactions and moves "
         "away / deletes a shape whose corner the previous route touched, or adds / moves a shape onto a previous route; distinct by FNV-1a of the case text",
    min_nontrivial=dict(quick=300, thorough=20000),
    max_aborted_frac=0.005,
    assumptions=["no moveShape/deleteShape of a shape added in the same open transaction (documented precondition)"],
)

CHECKS["C10"] = dict(
    stages=[stage("C10", quick=dict(cases=30000, size=100, shards=16), thorough=dict(cases=600000, size=100, shards=16), case_timeout=600)],
    technique="rapidcheck property-based testing: generated corridor scenes, validity predicates over raw versus nudged routes "
              "(endpoints, segment count, checkpoints, collinear-overlap detection with an independently measured channel width)",
    level_text="Generated orthogonal scenes built to make routes share corridors (a wall of 2-5 blocks with gaps of width 3-40, 2-8 "
               "connectors crossing it, loose rectangles, checkpoints inside corridors, both orientations), nudging distance "
               "0.5..8, all combinations of the four nudging options, buffer 0/1.  For every connector: nudging keeps first/last point "
               "(unless nudgeOrthogonalSegmentsConnectedToShapes), never adds segments, keeps checkpoints on the route and keeps the "
               "route valid; for every pair of connectors without a common endpoint, two interior segments must not remain collinear "
               "and overlapping when the free channel measured by the harness holds all its segments at the requested distance.",
    level_note="'Wide enough' is decided conservatively: channel width >= (k+1) x idealNudgingDistance for the k parallel segments in it; "
               "narrower channels, segments pinned by checkpoints and straight-line fallbacks are counted, not judged.  The internally "
               "reduced nudging distance is not observable, so only 'separated' (distance > 1e-9) is required of separated segments.",
    rule="rapidcheck-generated corridor scenes; non-trivial = the un-nudged routes of at least two connectors share a stretch of positive length; distinct by FNV-1a of the case text",
    min_nontrivial=dict(quick=800, thorough=40000),
    max_aborted_frac=0.02,
    assumptions=[],
)

CHECKS["C18"] = dict(
    stages=[stage("C18", quick=dict(cases=6000, size=100, shards=12), thorough=dict(cases=600000, size=100, shards=16), case_timeout=300)],
    technique="exhaustive enumeration of the constraint x transform table against an independent 2x2-matrix reference model "
              "(metamorphic relation), group-law table, and rapidcheck round-trip testing of the TGLF writer/reader",
    level_text="Exhaustive over every direction(8) x relation(2) x gap type(2) x gap in {+0,-0,3,7.5,11} x three node-size sets, alone and "
               "followed by a second constraint in the same SepPair: (i) the generated vpsc constraints mean what constraints.h "
               "says, (ii) for each of the 7 transforms a placement satisfies the constraint iff its image (own integer matrix, "
               "sizes swapped on quarter turns) satisfies the transformed constraint, over >= 64 lattice placements straddling the "
               "boundary, (iii) the full 7x7 composition table and four quarter turns reproduce the SepPair state including the "
               "sign of zero, (iv) addSep(a,b) and the negation under (b,a) generate identical constraints.  Random graphs "
               "(2-15 nodes, routes with bends, 0-30 constraints) must survive writeTglf -> buildGraphFromTglf with identical node "
               "geometry, edges, routes and generated constraints, and a second write must reproduce the text.",
    level_note="Round-trip inputs use only numbers the writers can print exactly (6 significant digits for geometry, 3 decimals for gaps); "
               "graphs whose constraints force two nodes to coincide are a documented writer error and counted as clean rejections.",
    rule="exhaustive table rows (distinct by construction; non-trivial = both outcomes of 'holds' occur among the row's placements) "
         "plus rapidcheck-generated graphs (non-trivial = a route with a bend and a zero-gap constraint; distinct by FNV-1a of the case text)",
    exhaustive=True,
    min_nontrivial=dict(quick=1000, thorough=20000),
    assumptions=["y axis points down (FLIPMD exchanges x and y)"],
)

CHECKS["C14"] = dict(
    stages=[stage("C14", quick=dict(cases=1440, size=100, shards=16, timeout=1500), thorough=dict(cases=15000, size=100, shards=16), case_timeout=900)],
    technique="rapidcheck property-based testing: generated connected graphs through doHOLA, validity predicates over the returned drawing",
    level_text="Generated connected simple graphs (trees, cycles, tree+chords, dense core with hanging trees, hubs; 2-30 nodes quick, "
               "2-60 thorough; node sizes 10-100; random and coincident initial positions) built through TGLF or through the Graph API, with "
               "ACA/chains for links, near-alignment on/off, three aspect-ratio classes, four tree growth directions and three paddings.  "
               "After doHOLA: same node ids and edge end pairs, sizes unchanged (1e-9), no two node boxes overlap (1e-6), every route has "
               ">=2 points, only axis-parallel segments (1e-9 relative: HOLA rotates and translates the finished drawing), starts/ends within the padded box of its end nodes, passes through no other "
               "node, and every constraint generated from the returned SepMatrix holds for the returned positions (1e-6).  "
               "While F19 (small violations of that last clause on 23% of the graphs) is open, the clause is split by mechanism: a directed separation "
               "with a positive gap between two nodes of the 2-core that the returned positions put in the opposite order has its own signature "
               "(sepmatrix-core-order-inverted), is not a listed finding and is reported.",
    level_note="Sampled graphs only; each case costs 0.2-2 s under ASan, so the quick tier is small.  'Within the documented padding' uses nodePaddingScalar x ideal edge length.",
    rule="rapidcheck-generated connected graphs in five families; non-trivial = the graph has a cycle and a degree-1 node (so both the core "
         "and the tree pipeline run); distinct by FNV-1a of the case text",
    min_nontrivial=dict(quick=40, thorough=3000),
    max_aborted_frac=0.02,
    assumptions=["no multi-edges, no self-loops, connected (the property's quantifier)"],
)

CHECKS["C19"] = dict(
    stages=[stage("C19", quick=dict(cases=40000, size=100, shards=16), thorough=dict(cases=800000, size=100, shards=16), case_timeout=600)],
    technique="rapidcheck property-based testing with partition / union-find / reachability validity predicates over the decompositions",
    level_text="Generated simple graphs (random, trees, cycles with chords, cores with hanging trees, caterpillars that peel away completely; "
               "up to 60 nodes, 80 thorough).  peel(): every node is in the core or in exactly one tree as a non-root, tree roots are core "
               "nodes, every input edge is in exactly one part, every tree is connected and acyclic (union-find), a core of more than "
               "one node has minimum degree 2, a tree input leaves a one-node core; symmetricLayout of each peeled tree (4 growth "
               "directions, convex ordering on/off) puts no two tree nodes on top of each other.  getConnComps(): a partition of "
               "nodes and edges into connected parts matching an independent union-find.  OrthoPlanariser on leafless graphs routed "
               "by LeaflessOrthoRouter: no two result edges cross or overlap, every original node survives, every original edge is "
               "realised by a chain of new nodes.",
    level_note="Planarisation inputs are produced by the library's own LeaflessOrthoRouter (the planariser's documented producer); "
               "each costs ~1 s, so it gets 5% of the cases.",
    rule="rapidcheck-generated graphs; non-trivial = peel: at least one tree of >=3 nodes and a core of >=2 nodes; components: >=2 "
         "components; planarise: the routed input has >=1 crossing; distinct by FNV-1a of the case text",
    min_nontrivial=dict(quick=800, thorough=40000),
    max_aborted_frac=0.002,
    assumptions=["simple graphs (no self-loops, no multi-edges); connected for peel()"],
)

CHECKS["C11"] = dict(
    stages=[stage("C11", quick=dict(cases=30000, size=100, shards=16), thorough=dict(cases=600000, size=100, shards=16), case_timeout=600)],
    technique="rapidcheck property-based testing of short API histories (build, optionally move before the first transaction, route, "
              "move/resize shapes or junctions, re-route) with validity predicates and an independent recomputation of pin positions",
    level_text="Generated scenes of 1-5 well-separated rectangles with 1-5 distinct pins per pinned shape (proportional / absolute offsets, "
               "edge pins with direction masks and inside offsets, interior pins, exclusive or shared, connection costs), 0-2 junctions, "
               "1-5 connectors (free point / pin class / junction to pin class, never exceeding the capacity of an exclusive class), 0-2 "
               "checkpoints; a pinned shape may be moved before the first transaction, then up to two move/resize/junction-move steps "
               "each followed by processTransaction().  After every transaction: each pin is where its documented offsets put it on the "
               "current polygon, pin-attached ends sit exactly on a pin of the class on that shape, exclusive pin positions are not "
               "over-used, orthogonal routes leave a pin in a permitted direction, junction ends equal the junction position, free ends "
               "are exact, checkpoints lie on route() in order.",
    level_note="Checkpoint visiting is judged on route() (C10 owns what nudging does to checkpoints).  Shapes are >= 8 apart and free points >= 4 from shapes so that every pin is reachable.",
    rule="rapidcheck-generated pin scenes and move histories; non-trivial = some connector has >= 2 candidate pins, or a checkpoint, or the "
         "history contains a move; distinct by FNV-1a of the case text",
    min_nontrivial=dict(quick=800, thorough=40000),
    max_aborted_frac=0.005,
    assumptions=["distinct pin positions per class (the library's pin set de-duplicates equal pins)"],
)

CHECKS["C12"] = dict(
    stages=[stage("C12", quick=dict(cases=7200, size=100, shards=16), thorough=dict(cases=120000, size=100, shards=16), case_timeout=600)],
    technique="rapidcheck property-based testing of hyperedge scenes and follow-up transactions with graph-theoretic validity predicates "
              "(union-find tree test, leaf set, attachment and list consistency) over the router's live objects",
    level_text="Generated orthogonal scenes of 3-10 separated rectangles, the first 3-8 of them terminals with a centre pin, an initial "
               "tree over 1-3 free-space junctions, improveHyperedgeRoutesMovingJunctions / ...MovingAddingAndDeletingJunctions on or off, "
               "registration with the HyperedgeRerouter by junction or not at all, followed by 0-2 transactions that "
               "move shapes.  After every transaction, over the router's live objects minus this transaction's deleted lists: connectors "
               "and junctions form one tree (union-find), its shape leaves are exactly the original terminals, no junction is a leaf, "
               "every connector end is attached (pin or junction), no live connector hangs on a deleted junction, a pin-attached connector has a "
               "route end on its terminal shape, and objects reported new (and not also deleted) are live; conversely (improvement-only transactions) nothing reported as new existed "
               "before the transaction and every live junction or connector that did not exist before it is reported as new.",
    level_note="Objects in the deleted lists are ignored until the next transaction, as documented.  Not covered: hyperedges registered by terminal list (their connectors do not expose attachments through endpointConnEnds()) and the exact position of route ends at junctions (improvement moves junctions and nudging spreads the displayed ends).",
    rule="rapidcheck-generated hyperedge scenes; non-trivial = the rerouter or improver changed the topology (non-empty new/deleted lists) "
         "or the hyperedge was registered for rerouting; distinct by FNV-1a of the case text",
    min_nontrivial=dict(quick=500, thorough=20000),
    max_aborted_frac=0.01,
    assumptions=[],
)

CHECKS["C07"] = dict(
    stages=[stage("C07", harness="COLA", props=["C07."], quick=dict(cases=2400, size=100, shards=16), thorough=dict(cases=150000, size=100, shards=16), case_timeout=600)],
    technique="rapidcheck property-based testing: generated graphs and constraint mixes through ConstrainedFDLayout, judged by an independent "
              "evaluator of each compound constraint's meaning on the final rectangle centres",
    level_text="Generated graphs (1-12 nodes quick, 30 thorough; edgeless, disconnected, piles of coincident nodes) with 1-7 compound constraints: "
               "node separations (eq/ineq), alignments with offsets (optionally fixed), boundaries, distributions / multi-separations / "
               "separations between alignments, fixed-relative groups; half of the mixes are built from a witness placement (jointly "
               "satisfiable), half are free (possibly unsatisfiable).  makeFeasible() on/off, run() in x, y or both, overlap avoidance and "
               "neighbour stress on/off.  Afterwards every constraint not reported through the UnsatisfiableConstraintInfos must hold on the "
               "rectangle centres to 1e-4, sizes must be unchanged and coordinates finite.",
    level_note="Each node is in at most one alignment per dimension (redundant equalities are documented as unsupported).  "
               "ConstrainedMajorizationLayout and PageBoundaryConstraints are not exercised.",
    rule="rapidcheck-generated layouts; non-trivial = at least two constraint kinds present and at least one constraint violated by the initial placement; distinct by FNV-1a of the case text",
    min_nontrivial=dict(quick=400, thorough=20000),
    assumptions=[],
)

CHECKS["C08"] = dict(
    stages=[stage("C08", harness="COLA", props=["C08."], quick=dict(cases=36000, size=100, shards=16), thorough=dict(cases=600000, size=100, shards=16), case_timeout=600)],
    technique="rapidcheck property-based testing: heavily overlapping generated layouts through makeFeasible()+run() with overlap avoidance, "
              "judged by pairwise rectangle overlap and cluster member-bounding-box predicates",
    level_text="Generated graphs (1-10 nodes quick, 24 thorough) with piles of coincident / nearly coincident nodes, optional exemption groups, "
               "optional rectangular-cluster hierarchies (1-3 clusters, padding and margin 0-10, one level of nesting, unclustered nodes), or "
               "witness-built user constraints whose witness is an overlap-free grid.  After makeFeasible() and run() with overlap avoidance, "
               "when nothing was reported unsatisfiable: no non-exempt pair of rectangles overlaps by more than 1e-3 in both axes, member "
               "bounding boxes of sibling clusters do not overlap, and no node lies inside the member bounding box of a cluster it does not belong to.",
    level_note="Cases where the layout reports an unsatisfiable constraint are outside the property and counted.",
    rule="rapidcheck-generated layouts; non-trivial = at least one pair overlaps initially; distinct by FNV-1a of the case text",
    min_nontrivial=dict(quick=500, thorough=30000),
    assumptions=[],
)

CHECKS["C13"] = dict(
    stages=[stage("C13", quick=dict(cases=14400, size=100, shards=16), thorough=dict(cases=200000, size=100, shards=16), case_timeout=900)],
    technique="rapidcheck property-based testing: generated node sets routed by libavoid, laid out by ConstrainedFDLayout + ColaTopologyAddon and "
              "stopped after a generated number of iterations; independent segment/rectangle and corner predicates on the result",
    level_text="Generated sets of 2-12 (thorough 20) non-overlapping node rectangles (gap 5/10/20, on and off a 10-lattice), random simple edges, "
               "initial routes from libavoid polyline routing centre to centre (tight around corners), then topology-preserving force-directed "
               "layout with overlap avoidance, stopped after 1-30 iterations or run to convergence.  Two further families drive the 'desired moves' of the property: "
               "C13.locked locks every node of a lattice scene (cola::Lock through a PreIteration) and drags up to half of them by lattice offsets in x, y or "
               "both for 1-8 iterations; C13.slide builds two nodes whose facing sides lie on exactly the same line, an edge running between them, 0-4 "
               "bystanders, and drags the two past each other (all eight lattice symmetries), so that scan-order ties and two bends on one line "
               "occur within one pass.  In the state it stops in: no segment of "
               "an edge path passes through the interior (shrunk by 1e-6) of a node other than its end nodes, no two nodes overlap (1e-3), every "
               "path still runs between its original end nodes, every bend lies on a corner of its node and turns around that node.",
    level_note="'During layout' is sampled by stopping after a generated iteration count, not by observing every internal step.  The side-"
               "signature clause is covered only through these local conditions (a global signature is not invariant when end nodes move).",
    rule="rapidcheck-generated scenes; non-trivial = at least one route has a bend (initially or after layout) and at least one node moved by more than its own size; distinct by FNV-1a of the case text",
    min_nontrivial=dict(quick=600, thorough=5000),
    max_aborted_frac=0.008,
    max_abort_site_frac={"topology_graph.cpp:311 false": 0.0008},     # assertConvexBend: 0-6 of 50 400 on the unchanged tree (seeds 0-3)
    assumptions=["initial routes come from libavoid (UseLeesAlgorithm, no invisibility graph), as in libtopology/tests/beautify.cpp"],
)

CHECKS["C20"] = dict(
    stages=[stage("C20", flavour="plain", quick=dict(cases=40000, size=100, shards=12), thorough=dict(cases=400000, size=100, shards=16), case_timeout=600)],
    technique="rapidcheck metamorphic testing: repeat under a permuted allocation order (custom operator new), exact translation, the seven "
              "non-trivial symmetries of the square",
    level_text="For generated VPSC problems (three solvers), rectangle sets with coincident/aligned rectangles (removeoverlaps with fixed sets and "
               "third pass), routing scenes (both modes, convex polygons, several connectors, nudging) and small force-directed layouts: the "
               "same calls are made twice in one process with heap churn in between and with the harness's allocator handing out "
               "addresses in a different pseudo-random order; VPSC positions, flags, removeoverlaps results and routes must be bit-identical, "
               "layout positions equal to 1e-9.  Translating a VPSC problem, a rectangle set or a routing scene by a multiple of 2^-10 "
               "translates positions to 1e-6 and leaves every route cost unchanged to 1e-6; rotating or mirroring a routing scene by each "
               "of the 7 symmetries leaves every connector's cost unchanged to 1e-9 relative.",
    level_note="Built without sanitizers (g++ -O1) because the harness replaces operator new/delete.  Order independence of VPSC input is checked in C02 "
               "(both orders against the certified optimum).  Hyperedge improvement and HOLA are not in the repeat set.",
    rule="rapidcheck-generated metamorphic pairs; non-trivial = the case has something to tie-break or to bend around: a VPSC constraint violated "
         "by the desired positions, two rectangles with equal centre coordinates, a route with a bend, a layout of >= 3 nodes; distinct by FNV-1a of the case text",
    min_nontrivial=dict(quick=10000, thorough=100000),
    max_aborted_frac=0.002,
    assumptions=["all translated coordinates stay below 2^20 in magnitude so every translated input is exactly representable"],
)

CHECKS["C15"] = dict(
    stages=[stage("fuzz_avoid", flavour="fuzz", kind="fuzz", quick=dict(cases=160000, shards=16, max_len=600, timeout=1200),
                  thorough=dict(cases=1200000, shards=16, max_len=1200, timeout=9000)),
            # replay-only: the witnesses of assertion findings are cases of other harnesses
            stage("ROUTE", props=["C03.", "C04.", "C05."], replay_only=True), stage("C10", props=["C10."], replay_only=True),
            stage("C11", props=["C11."], replay_only=True), stage("C06", props=["C06."], replay_only=True),
            stage("C13", props=["C13."], replay_only=True), stage("C19", props=["C19."], replay_only=True),
            stage("C14", props=["C14."], replay_only=True),
            stage("C15reg", props=["C15."], replay_only=True, env={"ASAN_OPTIONS": "exitcode=70:detect_leaks=1:allocator_may_return_null=1"})],
    engine="libFuzzer + rapidcheck replays",
    technique="coverage-guided fuzzing (libFuzzer, structure-aware decoding of bytes into legal API histories) under AddressSanitizer, UBSan, "
              "LeakSanitizer and the libraries' own assertions",
    level_text="libFuzzer target for libavoid: bytes are decoded (FuzzedDataProvider) into legal histories of up to 40 operations - add shape, add "
               "pin, add junction, add connector (free point / pin class / junction ends), set checkpoints, moveShape (relative, absolute, "
               "resize), deleteShape (never one added in the open transaction), deleteConnector, move/delete junction, re-attach an endpoint, "
               "processTransaction - with transactions on or off, both routing modes, hyperedge improvement that adds and deletes junctions "
               "(transactions on; the decoder follows the documented protocol of reading the new/deleted object lists after every "
               "transaction), and the router destroyed at the end whatever is still queued.  Oracle: ASan/UBSan reports, any vpsc::CriticalFailure whose site is not a listed finding, NaN in a route, and "
               "LeakSanitizer after the router is gone.  In addition every other check of this suite runs its generated cases under "
               "ASan+UBSan with assertions on and fails on a new assertion site, so C01-C19 double as C15 drivers for libvpsc, libcola, "
               "libtopology and libdialect; the witnesses of the assertion findings they found are replayed here.",
    level_note="MemorySanitizer is unusable in this image (no instrumented libstdc++), so uninitialised reads are only seen when UBSan catches them "
               "(as with F5).  'Terminates' is observed through the per-case watchdogs of the other checks, not proved.  libFuzzer campaigns are "
               "only approximately reproducible; the saved artifact is the reproducible unit.",
    rule="libFuzzer executions of decoded API histories; non-trivial = the history contains at least one deletion and at least two "
         "processTransaction calls and did not end in a known assertion; distinct by FNV-1a of the decoded operation trace",
    min_nontrivial=dict(quick=2000, thorough=50000),
    max_aborted_frac=0.05,
    assumptions=["histories respect the documented preconditions: no deleteShape/deleteJunction of an object added in the open transaction, no use of a deleted handle (including those reported by newAndDeletedObjectListsFromHyperedgeImprovement), pin classes only where such a pin exists, no identical duplicate pins, no connector with both ends on one junction",
                 "improveHyperedgeRoutesMovingAddingAndDeletingJunctions is generated only with transactions on: its read-the-lists-before-the-next-processTransaction protocol cannot be followed when every call processes",
                 "junction-junction connectors never close a cycle (open finding F34, excluded by construction)"],
)

# every check treats a library assertion at a site that is not a listed C15 finding as a violation of its own property
for _k in CHECKS:
    NOT_APPLICABLE.pop(_k, None)
