// C20: results are reproducible (same calls, same process, different allocation order in between)
// and routing / VPSC are independent of the frame (translation, the eight symmetries of the square).
#include "common/permalloc.h"
#include "common/scene.h"
#include "common/vpsc_model.h"
#include "libvpsc/rectangle.h"
#include "libcola/cola.h"
#include "libcola/compound_constraints.h"

using namespace verif;

namespace {
// "unrelated work in between": churn the heap, then hand out addresses in a new order
void disturb(uint64_t key) {
    std::vector<std::vector<char> *> junk;
    for (int i = 0; i < 200; i++) junk.push_back(new std::vector<char>((key * 31 + i * 17) % 300 + 1));
    for (size_t i = 0; i < junk.size(); i += 2) { delete junk[i]; junk[i] = nullptr; }
    permalloc::rekey(key);
    for (auto *j : junk) delete j;
}
bool sameBits(const std::vector<double> &a, const std::vector<double> &b, size_t &at) {
    if (a.size() != b.size()) { at = (size_t)-1; return false; }
    for (size_t i = 0; i < a.size(); i++) if (std::memcmp(&a[i], &b[i], sizeof(double)) != 0 && !(a[i] == b[i])) { at = i; return false; }
    return true;
}

// ---------------------------------------------------------------- VPSC
struct VCase { vm::Prob p; int solver; double off; };
std::vector<double> solveVpsc(const vm::Prob &p, int solver) {
    vm::Outcome o;
    if (solver == vm::AVOID) { vm::Live<vm::NSavoid> L(p, true); o = L.call(true); }
    else { vm::Live<vm::NSvpsc> L(p, solver == vm::INC); o = L.call(true); }
    std::vector<double> r = o.x;
    for (char f : o.flagged) r.push_back(f);
    r.push_back(o.threwUnsat); r.push_back(o.threwChar);
    return r;
}
Verdict eval_vpsc(const VCase &c) {
    Verdict v;
    disturb(11);
    std::vector<double> a = solveVpsc(c.p, c.solver);
    disturb(0xABCDEF + c.p.n);
    std::vector<double> b = solveVpsc(c.p, c.solver);
    size_t at;
    if (!sameBits(a, b, at)) { v.fail(fmt("%s: two runs on the same problem differ at result #%zu: %.17g vs %.17g (only the allocation order changed in between)", vm::kindName(c.solver), at, at < a.size() ? a[at] : 0.0, at < b.size() ? b[at] : 0.0), "vpsc-not-reproducible"); return v; }
    // translation by an exactly representable offset (unit scales: a translation of all variables)
    bool violated = false;
    for (auto &k : c.p.cs) if (c.p.d[k.r] - c.p.d[k.l] < k.g) violated = true;
    v.nontrivial = violated;
    bool flaggedA = false;
    for (size_t j = c.p.n; j < a.size(); j++) if (a[j] != 0) flaggedA = true;
    if (c.p.unitScale()) {
        vm::Prob q = c.p;
        for (double &d : q.d) d += c.off;
        std::vector<double> t = solveVpsc(q, c.solver);
        bool flaggedT = false;
        for (size_t j = c.p.n; j < t.size(); j++) if (t[j] != 0) flaggedT = true;
        if (flaggedA != flaggedT) v.fail("translation changes whether anything is reported unsatisfiable", "vpsc-not-translation-invariant");
        // an infeasible system has no unique answer (which constraint of the cycle is relaxed may differ): only the report must agree
        if (flaggedA || flaggedT) { v.cls("vpsc-infeasible(report compared only)"); return v; }
        for (int i = 0; i < c.p.n && v.ok; i++) if (std::fabs((t[i] - c.off) - a[i]) > 1e-6 * std::max(1.0, c.p.scaleOf()))
            v.fail(fmt("%s: translating the problem by %.10g moves variable %d from %.12g to %.12g (expected %.12g)", vm::kindName(c.solver), c.off, i, a[i], t[i], a[i] + c.off), "vpsc-not-translation-invariant");
        v.cls("vpsc-translation");
    }
    return v;
}

// ---------------------------------------------------------------- removeoverlaps
struct RCase { std::vector<std::array<double, 4>> rs; std::vector<int> fixed; bool third; double dx, dy; };
std::vector<double> runRemove(const RCase &c, double dx, double dy) {
    vpsc::Rectangles rs;
    for (auto &r : c.rs) rs.push_back(new vpsc::Rectangle(r[0] + dx, r[1] + dx, r[2] + dy, r[3] + dy));
    std::set<unsigned> fx(c.fixed.begin(), c.fixed.end());
    vpsc::removeoverlaps(rs, fx, c.third);
    std::vector<double> out;
    for (auto r : rs) { out.push_back(r->getCentreX()); out.push_back(r->getCentreY()); delete r; }
    return out;
}
Verdict eval_remove(const RCase &c) {
    Verdict v;
    disturb(3);
    std::vector<double> a = runRemove(c, 0, 0);
    disturb(0x5151 + c.rs.size());
    std::vector<double> b = runRemove(c, 0, 0);
    size_t at;
    if (!sameBits(a, b, at)) { v.fail(fmt("removeoverlaps: two runs on the same rectangles differ at coordinate #%zu: %.17g vs %.17g (only the allocation order changed in between)", at, a[at], b[at]), "removeoverlaps-not-reproducible"); return v; }
    bool tie = false;
    for (size_t i = 0; i < c.rs.size(); i++) for (size_t j = i + 1; j < c.rs.size(); j++) if (c.rs[i][0] + c.rs[i][1] == c.rs[j][0] + c.rs[j][1] || c.rs[i][2] + c.rs[i][3] == c.rs[j][2] + c.rs[j][3]) tie = true;
    v.nontrivial = tie;
    // (translation is not claimed for removeoverlaps: exactly tied x/y overlaps are resolved by rounding noise of the frame)
    return v;
}

// ---------------------------------------------------------------- routing
struct Routes { std::vector<std::vector<sc::P>> raw, disp; };
Routes routeScene(const sc::Scene &s) {
    Routes R;
    sc::Built b;
    sc::build(s, b);
    try { b.router->processTransaction(); } catch (...) { b.abandon(); throw; }
    for (auto c : b.conns) { R.raw.push_back(sc::toPts(c->route())); R.disp.push_back(sc::toPts(c->displayRoute())); }
    return R;
}
sc::Scene transformScene(const sc::Scene &s, int a, int b, int c2, int d, double tx, double ty) {     // (x,y) -> (a x + b y + tx, c x + d y + ty)
    sc::Scene t = s;
    auto T = [&](const sc::P &p) { return sc::P{a * p.x + b * p.y + tx, c2 * p.x + d * p.y + ty}; };
    bool flip = (a * d - b * c2) < 0;
    for (auto &sh : t.shapes) {
        if (sc::isRect(sh)) { sc::Box bb = sc::bbox(sh); sc::P p0 = T({bb.x0, bb.y0}), p1 = T({bb.x1, bb.y1}); sh = sc::rectPoly(std::min(p0.x, p1.x), std::min(p0.y, p1.y), std::max(p0.x, p1.x), std::max(p0.y, p1.y)); }
        else { for (auto &p : sh) p = T(p); if (flip) std::reverse(sh.begin(), sh.end()); }
    }
    // ConnDirFlags travel with the frame: Up = 1 (towards -y), Down = 2, Left = 4, Right = 8
    auto mapDirs = [&](int f) {
        if (f == 15 || f == 0) return f;
        static const int vec[4][2] = {{0, -1}, {0, 1}, {-1, 0}, {1, 0}};
        int out = 0;
        for (int bit = 0; bit < 4; bit++) if (f & (1 << bit)) {
            int vx = a * vec[bit][0] + b * vec[bit][1], vy = c2 * vec[bit][0] + d * vec[bit][1];
            out |= vy < 0 ? 1 : (vy > 0 ? 2 : (vx < 0 ? 4 : 8));
        }
        return out;
    };
    for (auto &k : t.conns) { k.a = T(k.a); k.b = T(k.b); for (auto &q : k.checkpoints) q = T(q); k.adirs = mapDirs(k.adirs); k.bdirs = mapDirs(k.bdirs); }
    return t;
}
Verdict eval_route(const sc::Scene &s, double tx, double ty) {
    Verdict v;
    disturb(7);
    Routes A = routeScene(s);
    disturb(0x777 + s.shapes.size() * 13 + s.conns.size());
    Routes B = routeScene(s);
    bool orth = s.cfg.flags == 2;
    v.cls(orth ? "orthogonal" : "polyline");
    for (size_t i = 0; i < A.raw.size() && v.ok; i++) {
        if (!(A.raw[i] == B.raw[i]) || !(A.disp[i] == B.disp[i]))
            v.fail(fmt("connector %zu: two runs on the same scene give different routes (only the allocation order changed in between): %s vs %s", i, sc::ptsStr(A.disp[i]).c_str(), sc::ptsStr(B.disp[i]).c_str()), "route-not-reproducible");
        if (A.disp[i].size() > 2) v.nontrivial = true;
    }
    if (!v.ok) return v;
    // translation by a multiple of 2^-10: the search's route() points are copies of input coordinates and translate exactly
    double pen = s.cfg.p(Avoid::segmentPenalty);
    Routes T = routeScene(transformScene(s, 1, 0, 0, 1, tx, ty));
    for (size_t i = 0; i < A.raw.size() && v.ok; i++) {
        double ca = orth ? sc::orthCost(A.raw[i], pen) : sc::polyCost(A.disp[i], pen), ct = orth ? sc::orthCost(T.raw[i], pen) : sc::polyCost(T.disp[i], pen);
        if (std::fabs(ca - ct) > 1e-6) v.fail(fmt("connector %zu: translating the scene by (%g,%g) changes the route cost from %.9f to %.9f", i, tx, ty, ca, ct), "route-not-translation-invariant");
        // same route, moved
        bool same = A.raw[i].size() == T.raw[i].size();
        for (size_t k = 0; same && k < A.raw[i].size(); k++) if (A.raw[i][k].x + tx != T.raw[i][k].x || A.raw[i][k].y + ty != T.raw[i][k].y) same = false;
        if (!same) v.cls("translated-route-is-a-different-equal-cost-route");
    }
    // the eight symmetries: cost unchanged (the route itself may be another equal-cost one)
    static const int M[7][4] = {{0, -1, 1, 0}, {0, 1, -1, 0}, {-1, 0, 0, -1}, {-1, 0, 0, 1}, {1, 0, 0, -1}, {0, 1, 1, 0}, {0, -1, -1, 0}};
    for (int m = 0; m < 7 && v.ok; m++) {
        Routes S = routeScene(transformScene(s, M[m][0], M[m][1], M[m][2], M[m][3], 0, 0));
        for (size_t i = 0; i < A.raw.size() && v.ok; i++) {
            double ca = orth ? sc::orthCost(A.raw[i], pen) : sc::polyCost(A.disp[i], pen), cs = orth ? sc::orthCost(S.raw[i], pen) : sc::polyCost(S.disp[i], pen);
            bool restricted = false; for (auto &k : s.conns) if (k.adirs != 15 || k.bdirs != 15) restricted = true;
            if (restricted) v.cls("direction-restricted-end-points");
            if (std::fabs(ca - cs) > 1e-9 * std::max(1.0, ca)) v.fail(fmt("connector %zu: the symmetry (%d %d / %d %d) changes the route cost from %.12g to %.12g; routes %s / %s", i, M[m][0], M[m][1], M[m][2], M[m][3], ca, cs, sc::ptsStr(orth ? A.raw[i] : A.disp[i]).c_str(), sc::ptsStr(orth ? S.raw[i] : S.disp[i]).c_str()), restricted ? "route-cost-not-symmetric-with-direction-flags" : "route-cost-not-symmetric");
        }
    }
    return v;
}

// ---------------------------------------------------------------- cola layout
struct LCase { std::vector<std::array<double, 4>> nodes; std::vector<std::pair<int, int>> edges; double ideal; bool nonOverlap; };
std::vector<double> runLayout(const LCase &c) {
    vpsc::Rectangles rs;
    for (auto &n : c.nodes) rs.push_back(new vpsc::Rectangle(n[0], n[0] + n[2], n[1], n[1] + n[3]));
    std::vector<cola::Edge> es;
    for (auto &e : c.edges) es.push_back({(unsigned)e.first, (unsigned)e.second});
    std::vector<double> out;
    {
        cola::ConstrainedFDLayout alg(rs, es, c.ideal);
        alg.setAvoidNodeOverlaps(c.nonOverlap);
        alg.run();
    }
    for (auto r : rs) { out.push_back(r->getCentreX()); out.push_back(r->getCentreY()); delete r; }
    return out;
}
Verdict eval_layout(const LCase &c) {
    Verdict v;
    disturb(5);
    std::vector<double> a = runLayout(c);
    disturb(0x9090 + c.nodes.size());
    std::vector<double> b = runLayout(c);
    v.nontrivial = c.nodes.size() >= 3;
    for (size_t i = 0; i < a.size() && v.ok; i++) if (std::fabs(a[i] - b[i]) > 1e-9 * std::max(1.0, std::fabs(a[i])))
        v.fail(fmt("ConstrainedFDLayout: two runs on the same input differ at coordinate #%zu: %.15g vs %.15g (only the allocation order changed in between)", i, a[i], b[i]), "layout-not-reproducible");
    return v;
}

// ---------------------------------------------------------------- text formats + generators
std::string vstr(const VCase &c) { Writer w; w.tok("solver").i(c.solver).d(c.off).nl(); c.p.put(w); return w.str(); }
VCase vparse(Reader &r) { VCase c; r.expect("solver"); c.solver = r.i(); c.off = r.d(); c.p = vm::Prob::get(r); return c; }
std::string rstr(const RCase &c) { Writer w; w.tok("rects").i(c.rs.size()).i(c.third).d(c.dx).d(c.dy).nl(); for (auto &r : c.rs) w.d(r[0]).d(r[1]).d(r[2]).d(r[3]).nl(); w.tok("fixed").i(c.fixed.size()); for (int f : c.fixed) w.i(f); return w.str(); }
RCase rparse(Reader &r) { RCase c; r.expect("rects"); size_t n = r.i(); c.third = r.i(); c.dx = r.d(); c.dy = r.d(); for (size_t i = 0; i < n; i++) { std::array<double, 4> q; for (auto &x : q) x = r.d(); c.rs.push_back(q); } r.expect("fixed"); size_t k = r.i(); for (size_t i = 0; i < k; i++) c.fixed.push_back(r.i()); return c; }
std::string lstr(const LCase &c) { Writer w; w.tok("layout").i(c.nodes.size()).i(c.edges.size()).d(c.ideal).i(c.nonOverlap).nl(); for (auto &n : c.nodes) w.d(n[0]).d(n[1]).d(n[2]).d(n[3]).nl(); for (auto &e : c.edges) w.i(e.first).i(e.second).nl(); return w.str(); }
LCase lparse(Reader &r) { LCase c; r.expect("layout"); size_t n = r.i(), m = r.i(); c.ideal = r.d(); c.nonOverlap = r.i(); for (size_t i = 0; i < n; i++) { std::array<double, 4> q; for (auto &x : q) x = r.d(); c.nodes.push_back(q); } for (size_t i = 0; i < m; i++) { int a = r.i(), b = r.i(); c.edges.push_back({a, b}); } return c; }

double offset10() { return irange(-4000, 4000) / 1024.0 + irange(-200, 200); }       // a multiple of 2^-10
VCase gen_v() { VCase c; c.solver = irange(0, 2); c.p = vm::gen_prob(tier_thorough() ? 80 : 30, c.solver == vm::STATIC ? vm::DAG : irange(0, 4), c.solver != vm::STATIC, true, true); c.off = offset10(); return c; }
RCase gen_r() {
    RCase c; int n = sized(1, tier_thorough() ? 80 : 30);
    for (int i = 0; i < n; i++) {
        double x = irange(0, 40), y = irange(0, 40), w = irange(1, 12), h = irange(1, 12);
        if (i > 0 && coin(1, 2)) { auto &o = c.rs[irange(0, i - 1)]; x = o[0]; y = o[2]; if (coin(1, 2)) { w = o[1] - o[0]; h = o[3] - o[2]; } }    // coincident / aligned: ties
        c.rs.push_back({x, x + w, y, y + h});
    }
    if (coin(1, 3)) for (int i = 0; i < n; i++) if (coin(1, 6)) c.fixed.push_back(i);
    c.third = coin(1, 3); c.dx = offset10(); c.dy = offset10();
    return c;
}
sc::Scene gen_s() {
    sc::Scene s;
    bool orth = coin(1, 2);
    s.cfg.flags = orth ? 2 : 1;
    for (double &p : s.cfg.param) p = 0;
    s.cfg.param[Avoid::segmentPenalty] = orth ? pick(std::vector<double>{10, 1, 50}) : pick(std::vector<double>{0, 0, 10});
    s.cfg.param[Avoid::idealNudgingDistance] = pick(std::vector<double>{4, 1});
    int span = irange(12, 50);
    sc::genShapes(s, 8, span, 1, orth ? 0 : 30, false);
    int k = irange(1, 4);
    // Known finding F50: with direction-restricted free end points the orthogonal router is far from frame independent (it finds
    // no route in one orientation and a proper one after a quarter turn).  Excluded by construction: end points use ConnDirAll.
    // (transformScene() does map the flags, so the witness replays.)
    bool dirs = false;
    for (int i = 0; i < k; i++) {
        sc::Conn c; c.type = orth ? 2 : 1;
        if (!sc::genFreePoint(s, span, 1, c.a) || !sc::genFreePoint(s, span, 1, c.b) || c.a == c.b) continue;
        if (dirs) { c.adirs = pick(std::vector<int>{15, 12, 3, 1, 2, 4, 8, 9, 6}); c.bdirs = pick(std::vector<int>{15, 15, 12, 3, 1, 2, 4, 8}); }
        s.conns.push_back(c);
    }
    return s;
}
LCase gen_l() {
    LCase c; int n = sized(1, 10);
    for (int i = 0; i < n; i++) c.nodes.push_back({(double)irange(0, 200), (double)irange(0, 200), (double)irange(5, 40), (double)irange(5, 40)});
    if (coin(1, 3)) for (auto &nd : c.nodes) { nd[0] = 50; nd[1] = 50; }
    int m = irange(0, 2 * n);
    for (int j = 0; j < m; j++) { int a = irange(0, n - 1), b = irange(0, n - 1); if (a != b) c.edges.push_back({a, b}); }
    c.ideal = irange(20, 100); c.nonOverlap = coin(1, 2);
    return c;
}
} // namespace

int main(int argc, char **argv) {
    std::vector<Prop> props;
    props.push_back({"C20.vpsc", 1.0, [] { VCase c = gen_v(); return record("C20.vpsc", vstr(c), [&] { return eval_vpsc(c); }); }, [](Reader &r) { return eval_vpsc(vparse(r)); }, nullptr});
    props.push_back({"C20.removeoverlaps", 0.5, [] { RCase c = gen_r(); return record("C20.removeoverlaps", rstr(c), [&] { return eval_remove(c); }); }, [](Reader &r) { return eval_remove(rparse(r)); }, nullptr});
    props.push_back({"C20.route", 0.6,
        [] { sc::Scene s = gen_s(); RC_PRE(!s.conns.empty()); double tx = offset10(), ty = offset10(); Writer w; s.put(w); w.tok("offset").d(tx).d(ty); return record("C20.route", w.str(), [&] { return eval_route(s, tx, ty); }); },
        [](Reader &r) { sc::Scene s = sc::Scene::get(r); r.expect("offset"); double tx = r.d(), ty = r.d(); return eval_route(s, tx, ty); }, nullptr});
    props.push_back({"C20.layout", 0.1, [] { LCase c = gen_l(); return record("C20.layout", lstr(c), [&] { return eval_layout(c); }); }, [](Reader &r) { return eval_layout(lparse(r)); }, nullptr});
    return run_main(argc, argv, props);
}
