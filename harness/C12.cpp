// C12: hyperedges stay spanning trees over the same terminals through rerouting and improvement.
#include "common/scene.h"
#include <functional>

using namespace verif;
using namespace sc;

namespace {
struct Case {
    Cfg cfg;
    std::vector<Poly> shapes;          // the first `terminals` shapes are terminals (centre pin), the rest obstacles
    int terminals = 3;
    std::vector<P> junctions;          // initial junctions: junction i>0 is joined to junction parent[i]
    std::vector<int> parent;
    std::vector<int> attach;           // terminal t is joined to junction attach[t]
    int reg = 0;                       // 0 none, 1 register by junction, 2 register by terminal list (no initial tree)
    std::vector<std::pair<int, Poly>> moves;    // later transactions: move shape idx to poly
    std::string str() const {
        Writer w;
        Scene s; s.cfg = cfg; s.shapes = shapes; s.put(w);
        w.tok("hyper").i(terminals).i(reg).i(junctions.size()).nl();
        for (size_t i = 0; i < junctions.size(); i++) w.d(junctions[i].x).d(junctions[i].y).i(parent[i]).nl();
        w.tok("attach"); for (int a : attach) w.i(a); w.nl();
        w.tok("moves").i(moves.size()).nl();
        for (auto &m : moves) { w.i(m.first).i(m.second.size()); for (auto &q : m.second) w.d(q.x).d(q.y); w.nl(); }
        return w.str();
    }
    static Case parse(Reader &r) {
        Case c;
        Scene s = Scene::get(r); c.cfg = s.cfg; c.shapes = s.shapes;
        r.expect("hyper"); c.terminals = r.i(); c.reg = r.i(); size_t nj = r.i();
        for (size_t i = 0; i < nj; i++) { double x = r.d(), y = r.d(); c.junctions.push_back({x, y}); c.parent.push_back(r.i()); }
        r.expect("attach"); for (int t = 0; t < c.terminals; t++) c.attach.push_back(r.i());
        r.expect("moves"); size_t nm = r.i();
        for (size_t i = 0; i < nm; i++) { int idx = r.i(); size_t k = r.i(); Poly p; for (size_t j = 0; j < k; j++) { double x = r.d(), y = r.d(); p.push_back({x, y}); } c.moves.push_back({idx, p}); }
        return c;
    }
};

Verdict eval_c12(const Case &c) {
    Verdict v;
    Built b;
    b.router = new Avoid::Router(Avoid::OrthogonalRouting);
    configure(b.router, c.cfg);
    Avoid::Router *router = b.router;
    std::vector<Avoid::ShapeRef *> sh;
    try {
        for (size_t i = 0; i < c.shapes.size(); i++) {
            Avoid::ShapeRef *s = addShape(router, c.shapes[i]);
            if ((int)i < c.terminals) new Avoid::ShapeConnectionPin(s, 1, Avoid::ATTACH_POS_CENTRE, Avoid::ATTACH_POS_CENTRE, true, 0, Avoid::ConnDirNone);
            sh.push_back(s);
        }
        std::vector<Avoid::JunctionRef *> js;
        std::set<void *> mine;      // junctions and connectors created by the user (this harness)
        if (c.reg != 2) {
            for (auto &j : c.junctions) { js.push_back(new Avoid::JunctionRef(router, Avoid::Point(j.x, j.y))); mine.insert((Avoid::Obstacle *)js.back()); }
            for (size_t i = 1; i < js.size(); i++) { auto *cr = new Avoid::ConnRef(router, Avoid::ConnEnd(js[c.parent[i]]), Avoid::ConnEnd(js[i])); cr->setRoutingType(Avoid::ConnType_Orthogonal); mine.insert(cr); }
            for (int t = 0; t < c.terminals; t++) { auto *cr = new Avoid::ConnRef(router, Avoid::ConnEnd(sh[t], 1), Avoid::ConnEnd(js[c.attach[t]])); cr->setRoutingType(Avoid::ConnType_Orthogonal); mine.insert(cr); }
            if (c.reg == 1) router->hyperedgeRerouter()->registerHyperedgeForRerouting(js[0]);
        } else {
            Avoid::ConnEndList terms;
            for (int t = 0; t < c.terminals; t++) terms.push_back(Avoid::ConnEnd(sh[t], 1));
            router->hyperedgeRerouter()->registerHyperedgeForRerouting(terms);
        }
        std::vector<Poly> shapes = c.shapes;
        bool topologyChanged = false;
        std::set<void *> prevDel;
        for (size_t step = 0; step <= c.moves.size() && v.ok; step++) {
            if (step > 0) { Avoid::Polygon poly = toPolygon(c.moves[step - 1].second); router->moveShape(sh[c.moves[step - 1].first], poly); shapes[c.moves[step - 1].first] = c.moves[step - 1].second; }
            // objects the user already knew before this transaction (those reported deleted by the previous one are gone)
            std::set<void *> before;
            if (step == 0) before = mine;
            for (Avoid::Obstacle *o : router->m_obstacles) if (!prevDel.count(o)) before.insert(o);
            for (Avoid::ConnRef *cr : router->connRefs) if (!prevDel.count(cr)) before.insert(cr);
            router->processTransaction();
            std::string phase = fmt("after transaction %zu", step + 1);
            // both reports of this transaction: full rerouting (registered hyperedges) and local improvement
            Avoid::HyperedgeNewAndDeletedObjectLists L = router->newAndDeletedObjectListsFromHyperedgeImprovement();
            if (step == 0 && c.reg != 0) {      // (count() is reset by the transaction, the lists stay readable)
                Avoid::HyperedgeNewAndDeletedObjectLists L1 = router->hyperedgeRerouter()->newAndDeletedObjectLists(0);
                L.newJunctionList.insert(L.newJunctionList.end(), L1.newJunctionList.begin(), L1.newJunctionList.end());
                L.newConnectorList.insert(L.newConnectorList.end(), L1.newConnectorList.begin(), L1.newConnectorList.end());
                L.deletedJunctionList.insert(L.deletedJunctionList.end(), L1.deletedJunctionList.begin(), L1.deletedJunctionList.end());
                L.deletedConnectorList.insert(L.deletedConnectorList.end(), L1.deletedConnectorList.begin(), L1.deletedConnectorList.end());
            }
            // Objects created by a full rerouting get their ConnEnds through queued actions ("may have been set but
            // processTransaction has not yet been called"): the attachment of the new connectors is observable after the
            // following transaction, which also frees the objects reported as deleted.
            bool settled = false;
            if (step == 0 && c.reg != 0) { router->processTransaction(); settled = true; }
            std::set<void *> del;
            for (auto *x : L.deletedJunctionList) del.insert(x);
            for (auto *x : L.deletedConnectorList) del.insert(x);
            if (settled) {      // the settling transaction may improve (and delete) again
                Avoid::HyperedgeNewAndDeletedObjectLists L2 = router->newAndDeletedObjectListsFromHyperedgeImprovement();
                for (auto *x : L2.deletedJunctionList) del.insert(x);
                for (auto *x : L2.deletedConnectorList) del.insert(x);
            }
            if (!L.newJunctionList.empty() || !L.deletedJunctionList.empty() || !L.newConnectorList.empty() || !L.deletedConnectorList.empty()) topologyChanged = true;
            // live objects
            std::map<void *, int> id;
            auto nid = [&](void *p) { if (!id.count(p)) { int n = (int)id.size(); id[p] = n; } return id[p]; };
            std::set<void *> live;
            int njunc = 0;
            for (Avoid::Obstacle *o : router->m_obstacles) { live.insert(o); if (!del.count(o) && dynamic_cast<Avoid::JunctionRef *>(o)) { nid(o); njunc++; } }
            for (Avoid::ConnRef *cr : router->connRefs) live.insert(cr);
            std::vector<std::pair<int, int>> edges;
            std::map<void *, std::vector<std::pair<P, P>>> meet;
            std::set<Avoid::ShapeRef *> termSeen;
            std::map<int, int> degree;
            for (Avoid::ConnRef *cr : router->connRefs) {
                if (del.count(cr)) continue;
                auto ends = cr->endpointConnEnds();
                Avoid::ConnEnd ce[2] = {ends.first, ends.second};
                int e[2];
                std::vector<P> dr = toPts(cr->displayRoute());
                bool geometric[2] = {false, false};
                for (int q = 0; q < 2 && v.ok; q++) {
                    if (ce[q].type() == Avoid::ConnEndJunction) {
                        if (del.count(ce[q].junction())) v.fail(fmt("%s: a live connector is attached to a junction the router reported as deleted", phase.c_str()), "attached-to-deleted-junction");
                        e[q] = nid(ce[q].junction());
                    } else if (ce[q].type() == Avoid::ConnEndShapePin) { e[q] = nid(ce[q].shape()); termSeen.insert(ce[q].shape()); }
                    else {
                        // Hyperedges built by the rerouter from a terminal list do not expose ConnEnds through
                        // endpointConnEnds(); identify the attached object from where the route ends.
                        e[q] = -1;
                        geometric[q] = true;
                        if (!dr.empty()) {
                            const P &p = q ? dr.back() : dr.front();
                            for (Avoid::Obstacle *o : router->m_obstacles) {
                                if (del.count(o)) continue;
                                if (auto *jj = dynamic_cast<Avoid::JunctionRef *>(o)) { Avoid::Point jp = jj->position(), rp = jj->recommendedPosition(); if ((std::fabs(jp.x - p.x) < 1e-6 && std::fabs(jp.y - p.y) < 1e-6) || (std::fabs(rp.x - p.x) < 1e-6 && std::fabs(rp.y - p.y) < 1e-6)) e[q] = nid(o); }
                            }
                            if (e[q] < 0) for (int t = 0; t < c.terminals; t++) { Box bb = bbox(shapes[t]); if (p.x >= bb.x0 - 1e-6 && p.x <= bb.x1 + 1e-6 && p.y >= bb.y0 - 1e-6 && p.y <= bb.y1 + 1e-6) { e[q] = nid(sh[t]); termSeen.insert(sh[t]); } }
                        }
                        if (e[q] < 0) v.fail(fmt("%s: a connector end is attached to nothing (ConnEnd type %d) and its route does not end on a junction or terminal", phase.c_str(), (int)ce[q].type()), "dangling-connector-end");
                    }
                }
                if (!v.ok) break;
                edges.push_back({e[0], e[1]});
                degree[e[0]]++; degree[e[1]]++;
                // the route runs between the two attached objects
                std::vector<P> d = toPts(cr->displayRoute());
                if (d.size() < 2) {
                    // a junction placed exactly on the pin it connects to gives a zero-length connector
                    Avoid::Point p0 = ce[0].type() == Avoid::ConnEndJunction ? ce[0].junction()->position() : ce[0].position();
                    Avoid::Point p1 = ce[1].type() == Avoid::ConnEndJunction ? ce[1].junction()->position() : ce[1].position();
                    if (std::fabs(p0.x - p1.x) < 1e-6 && std::fabs(p0.y - p1.y) < 1e-6) { v.cls("zero-length-connector"); continue; }
                    v.fail(fmt("%s: a hyperedge connector has a route of %zu points", phase.c_str(), d.size()), "short-route"); break;
                }
                // (the rewritten routes of hyperedge connectors are not necessarily stored source-to-target)
                for (int q = 0; q < 2 && v.ok; q++) {
                    if (geometric[q]) continue;
                    if (ce[q].type() == Avoid::ConnEndShapePin) {
                        Avoid::Box bx = ce[q].shape()->polygon().offsetBoundingBox(0.0);
                        auto inside = [&](const P &p) { return p.x >= bx.min.x - 1e-6 && p.x <= bx.max.x + 1e-6 && p.y >= bx.min.y - 1e-6 && p.y <= bx.max.y + 1e-6; };
                        if (!inside(d.front()) && !inside(d.back()))
                            v.fail(fmt("%s: neither end of a connector's route ((%g,%g) .. (%g,%g)) is on the terminal shape it is attached to", phase.c_str(), d.front().x, d.front().y, d.back().x, d.back().y), "route-end-off-object");
                    } else meet[ce[q].junction()].push_back({d.front(), d.back()});
                }
            }
            if (!v.ok) break;
            // terminals: exactly the original ones
            bool termOK = (int)termSeen.size() == c.terminals;
            for (int t = 0; t < c.terminals; t++) if (!termSeen.count(sh[t])) termOK = false;
            if (!termOK) { v.fail(fmt("%s: the hyperedge reaches %zu terminal shapes, it had %d", phase.c_str(), termSeen.size(), c.terminals), "terminal-lost"); break; }
            // a single tree whose leaves are the terminals
            int V = (int)id.size();
            std::vector<int> par(V);
            for (int i = 0; i < V; i++) par[i] = i;
            std::function<int(int)> f = [&](int x) { return par[x] == x ? x : par[x] = f(par[x]); };
            bool cyc = false;
            for (auto &e : edges) { int a2 = f(e.first), b2 = f(e.second); if (a2 == b2) cyc = true; else par[a2] = b2; }
            int comps = 0;
            for (int i = 0; i < V; i++) if (f(i) == i) comps++;
            if (cyc || comps != 1 || (int)edges.size() != V - 1) { v.fail(fmt("%s: connectors and junctions do not form one tree: %d nodes (%d junctions), %zu connectors, %d components, cycle=%d", phase.c_str(), V, njunc, edges.size(), comps, (int)cyc), "not-a-tree"); break; }
            for (auto &kv : id) if (dynamic_cast<Avoid::JunctionRef *>((Avoid::Obstacle *)nullptr) == nullptr) { (void)kv; }
            for (Avoid::Obstacle *o : router->m_obstacles) if (!del.count(o) && dynamic_cast<Avoid::JunctionRef *>(o) && degree[id[o]] < 2) { v.fail(fmt("%s: a junction is a leaf of the hyperedge (degree %d)", phase.c_str(), degree[id[o]]), "junction-leaf"); break; }
            if (!v.ok) break;
            // reported lists are consistent with the live objects
            if (!settled) for (auto *x : L.newJunctionList) if (!del.count(x) && !live.count(x))   /* (created and deleted in the same pass is reported in both lists) */ v.fail(phase + ": a junction reported as new is not a live object", "lists-inconsistent");
            if (!settled) for (auto *x : L.newConnectorList) if (!del.count(x) && !live.count(x)) v.fail(phase + ": a connector reported as new is not a live object", "lists-inconsistent");
            // ... in both directions: nothing reported as new existed before the transaction, and every live connector or
            // junction that did not exist before it is reported as new
            if (!settled && v.ok) {
                std::set<void *> rep;
                for (auto *x : L.newJunctionList) rep.insert(x);
                for (auto *x : L.newConnectorList) rep.insert(x);
                for (void *x : rep) if (before.count(x)) { v.fail(phase + ": an object reported as new existed before the transaction", "lists-inconsistent-new-is-old"); break; }
                if (v.ok) for (Avoid::Obstacle *o : router->m_obstacles) if (dynamic_cast<Avoid::JunctionRef *>(o) && !del.count(o) && !before.count(o) && !rep.count(o)) { v.fail(phase + ": a live junction created by this transaction is not in newJunctionList", "lists-inconsistent-new-unreported"); break; }
                if (v.ok) for (Avoid::ConnRef *cr : router->connRefs) if (!del.count(cr) && !before.count(cr) && !rep.count(cr)) { v.fail(phase + ": a live connector created by this transaction is not in newConnectorList", "lists-inconsistent-new-unreported"); break; }
            }
            prevDel = del;
        }
        v.nontrivial = topologyChanged || c.reg != 0;
        if (topologyChanged) v.cls("topology-changed");
        if (c.reg == 1) v.cls("registered-by-junction");
        if (c.reg == 2) v.cls("registered-by-terminals");
        if (c.cfg.opt[Avoid::improveHyperedgeRoutesMovingAddingAndDeletingJunctions]) v.cls("improvement-add-delete");
        if (!c.moves.empty()) v.cls("later-transactions");
        if (c.terminals >= 5) v.cls("terminals>=5");
    } catch (...) { b.abandon(); throw; }
    return v;
}

Case gen_case() {
    Case c;
    c.cfg.flags = 2;
    c.cfg.param[Avoid::segmentPenalty] = pick(std::vector<double>{10, 20, 50});
    c.cfg.param[Avoid::shapeBufferDistance] = pick(std::vector<double>{0, 2});
    c.cfg.opt[Avoid::improveHyperedgeRoutesMovingJunctions] = !coin(1, 4);
    c.cfg.opt[Avoid::improveHyperedgeRoutesMovingAddingAndDeletingJunctions] = coin(1, 2);
    int span = irange(40, 90);
    Scene s;
    genShapes(s, 10, span, 8, 0, false);
    c.shapes = s.shapes;
    c.terminals = std::min<int>((int)c.shapes.size(), irange(3, 8));
    if (c.terminals < 3) { c.terminals = 0; return c; }
    auto freeP = [&](P &out) {
        for (int t = 0; t < 60; t++) {
            P p{(double)irange(0, span * 3 / 2), (double)irange(0, span * 3 / 2)};
            bool ok = true;
            for (auto &sp : c.shapes) { Box bb = bbox(sp); if (p.x > bb.x0 - 3 && p.x < bb.x1 + 3 && p.y > bb.y0 - 3 && p.y < bb.y1 + 3) ok = false; }
            for (auto &q : c.junctions) if (std::fabs(q.x - p.x) < 3 && std::fabs(q.y - p.y) < 3) ok = false;
            if (ok) { out = p; return true; }
        }
        return false;
    };
    c.reg = irange(0, 1);      // registration by terminal list: the created connectors do not expose their attachments (endpointConnEnds() reports them uninitialised), see DESIGN.md C12
    int nj = irange(1, 3);
    for (int i = 0; i < nj; i++) { P p; if (freeP(p)) { c.junctions.push_back(p); c.parent.push_back(c.junctions.size() > 1 ? irange(0, (int)c.junctions.size() - 2) : 0); } }
    if (c.junctions.empty()) { c.terminals = 0; return c; }
    // every junction needs degree >= 2... attach terminals round-robin first, then randomly
    for (int t = 0; t < c.terminals; t++) c.attach.push_back(t < (int)c.junctions.size() * 2 ? t % (int)c.junctions.size() : irange(0, (int)c.junctions.size() - 1));
    int nm = irange(0, 2);
    std::vector<Poly> cur = c.shapes;
    for (int i = 0; i < nm; i++) {
        int idx = irange(0, (int)cur.size() - 1);
        Box o = bbox(cur[idx]);
        int dx = irange(-10, 10), dy = irange(-10, 10);
        Box nb{o.x0 + dx, o.y0 + dy, o.x1 + dx, o.y1 + dy};
        bool ok = true;
        for (size_t k = 0; k < cur.size(); k++) if ((int)k != idx && !boxesApart(nb, bbox(cur[k]), 8)) ok = false;
        for (auto &q : c.junctions) if (q.x > nb.x0 - 3 && q.x < nb.x1 + 3 && q.y > nb.y0 - 3 && q.y < nb.y1 + 3) ok = false;
        if (!ok) continue;
        cur[idx] = rectPoly(nb.x0, nb.y0, nb.x1, nb.y1);
        c.moves.push_back({idx, cur[idx]});
    }
    return c;
}
} // namespace

int main(int argc, char **argv) {
    std::vector<Prop> props;
    props.push_back({"C12.hyperedge", 1.0,
        [] { Case c = gen_case(); RC_PRE(c.terminals >= 3); return record("C12.hyperedge", c.str(), [&] { return eval_c12(c); }); },
        [](Reader &r) { return eval_c12(Case::parse(r)); }, nullptr});
    return run_main(argc, argv, props);
}
