// C17: all-pairs shortest paths (dijkstra / johnsons / floyd_warshall) and the
// ConstrainedFDLayout ideal-distance matrix, against an independent Bellman-Ford.
#include "common/verif.h"
#include <valarray>
#include <limits>
#include "libcola/shortest_paths.h"
#include "libcola/cola.h"
#include "libvpsc/rectangle.h"

using namespace verif;

namespace {
struct E { unsigned u, v; double w; };
struct Case {
    unsigned n = 1;
    bool unit = false;         // pass an empty weight array
    double ideal = 1;          // idealLength for the layout matrix
    std::vector<E> es;
    std::string str() const {
        Writer w;
        w.tok("graph").i(n).i(unit).d(ideal).i(es.size()).nl();
        for (auto &e : es) w.i(e.u).i(e.v).d(e.w).nl();
        return w.str();
    }
    static Case parse(Reader &r) {
        Case c;
        r.expect("graph");
        c.n = r.i(); c.unit = r.i(); c.ideal = r.d();
        size_t m = r.i();
        for (size_t k = 0; k < m; k++) { E e; e.u = r.i(); e.v = r.i(); e.w = r.d(); c.es.push_back(e); }
        return c;
    }
};

const double INF = std::numeric_limits<double>::max();

// Independent oracle: Bellman-Ford from every source, long double accumulators.
std::vector<std::vector<long double>> bellman(unsigned n, const std::vector<E> &es, const std::vector<double> &w) {
    const long double LINF = -1;   // "unreached" marker
    std::vector<std::vector<long double>> R(n, std::vector<long double>(n, LINF));
    for (unsigned s = 0; s < n; s++) {
        auto &d = R[s];
        d[s] = 0;
        for (unsigned it = 0; it < n; it++) {
            bool ch = false;
            for (size_t k = 0; k < es.size(); k++) {
                unsigned a = es[k].u, b = es[k].v;
                long double ww = w[k];
                if (d[a] >= 0 && (d[b] < 0 || d[a] + ww < d[b])) { d[b] = d[a] + ww; ch = true; }
                if (d[b] >= 0 && (d[a] < 0 || d[b] + ww < d[a])) { d[a] = d[b] + ww; ch = true; }
            }
            if (!ch) break;
        }
    }
    return R;
}

bool differs(double got, long double want) {
    if (want < 0) return got != INF;              // unreachable: the sentinel exactly
    if (got == INF) return true;
    return std::fabs((long double)got - want) > 1e-9L * std::max((long double)1.0, want);
}

struct Mat {
    unsigned n; double **D;
    explicit Mat(unsigned n) : n(n) { D = new double *[n]; for (unsigned i = 0; i < n; i++) { D[i] = new double[n]; for (unsigned j = 0; j < n; j++) D[i][j] = -12345; } }
    ~Mat() { for (unsigned i = 0; i < n; i++) delete[] D[i]; delete[] D; }
};

Verdict eval_apsp(const Case &c) {
    Verdict v;
    unsigned n = c.n;
    std::vector<shortest_paths::Edge> es;
    std::vector<double> w;
    bool par = false, loop = false, zero = false;
    std::set<std::pair<unsigned, unsigned>> seen;
    for (auto &e : c.es) {
        es.push_back({e.u, e.v});
        w.push_back(c.unit ? 1.0 : e.w);
        if (e.u == e.v) loop = true;
        if (!seen.insert({std::min(e.u, e.v), std::max(e.u, e.v)}).second) par = true;
        if (!c.unit && e.w == 0) zero = true;
    }
    std::valarray<double> ew = c.unit ? std::valarray<double>() : std::valarray<double>(w.data(), w.size());
    auto R = bellman(n, c.es, w);
    bool disc = false;
    for (unsigned i = 0; i < n; i++) for (unsigned j = 0; j < n; j++) if (R[i][j] < 0) disc = true;
    v.nontrivial = disc || par || loop || zero;
    if (disc) v.cls("disconnected");
    if (par) v.cls("parallel-edges");
    if (loop) v.cls("self-loop");
    if (zero) v.cls("zero-weight");
    if (c.unit) v.cls("unit-weights");
    if (n >= 30) v.cls("n>=30");

    Mat J(n), F(n);
    shortest_paths::johnsons(n, J.D, es, ew);
    shortest_paths::floyd_warshall(n, F.D, es, ew);
    std::vector<double> d(n);
    for (unsigned i = 0; i < n && v.ok; i++) {
        std::fill(d.begin(), d.end(), -12345);
        shortest_paths::dijkstra(i, n, d.data(), es, ew);
        for (unsigned j = 0; j < n && v.ok; j++) {
            if (differs(J.D[i][j], R[i][j]))
                v.fail(fmt("johnsons D[%u][%u]=%.17g, Bellman-Ford %.17Lg", i, j, J.D[i][j], R[i][j]), "johnsons-wrong");
            else if (differs(F.D[i][j], R[i][j]))
                v.fail(fmt("floyd_warshall D[%u][%u]=%.17g, Bellman-Ford %.17Lg", i, j, F.D[i][j], R[i][j]), "floyd-wrong");
            else if (differs(d[j], R[i][j]))
                v.fail(fmt("dijkstra(%u)[%u]=%.17g, Bellman-Ford %.17Lg", i, j, d[j], R[i][j]), "dijkstra-wrong");
            else if (i == j && (J.D[i][i] != 0 || F.D[i][i] != 0 || d[i] != 0))
                v.fail(fmt("non-zero diagonal at %u: johnsons %g floyd %g dijkstra %g", i, J.D[i][i], F.D[i][i], d[i]), "diagonal");
        }
    }
    // symmetry + mutual agreement (1e-9 relative; the two triangles come from different runs)
    for (unsigned i = 0; i < n && v.ok; i++) for (unsigned j = 0; j < n && v.ok; j++) {
        auto ne = [](double a, double b) { if (a == INF || b == INF) return a != b; return std::fabs(a - b) > 1e-9 * std::max(1.0, std::fabs(b)); };
        if (ne(J.D[i][j], J.D[j][i])) v.fail(fmt("johnsons asymmetric at (%u,%u): %.17g vs %.17g", i, j, J.D[i][j], J.D[j][i]), "asymmetric");
        if (ne(F.D[i][j], F.D[j][i])) v.fail(fmt("floyd_warshall asymmetric at (%u,%u)", i, j), "asymmetric");
        if (ne(J.D[i][j], F.D[i][j])) v.fail(fmt("johnsons and floyd_warshall disagree at (%u,%u): %.17g vs %.17g", i, j, J.D[i][j], F.D[i][j]), "disagree");
    }
    return v;
}

// idealLength * path lengths, non-positive edge lengths replaced by 1.
Verdict eval_layoutD(const Case &c) {
    Verdict v;
    unsigned n = c.n;
    vpsc::Rectangles rs;
    for (unsigned i = 0; i < n; i++) rs.push_back(new vpsc::Rectangle(10.0 * i, 10.0 * i + 5, 3.0 * (i % 7), 3.0 * (i % 7) + 4));
    std::vector<cola::Edge> es;
    cola::EdgeLengths el;
    std::vector<double> w;
    bool nonpos = false, par = false;
    std::set<std::pair<unsigned, unsigned>> seen;
    for (auto &e : c.es) {
        es.push_back({e.u, e.v});
        if (!c.unit) el.push_back(e.w);
        double ww = c.unit ? 1.0 : (e.w <= 0 ? 1.0 : e.w);
        if (!c.unit && e.w <= 0) nonpos = true;
        if (!seen.insert({std::min(e.u, e.v), std::max(e.u, e.v)}).second) par = true;
        w.push_back(ww);
    }
    auto R = bellman(n, c.es, w);
    bool disc = false;
    for (unsigned i = 0; i < n; i++) for (unsigned j = 0; j < n; j++) if (R[i][j] < 0) disc = true;
    v.nontrivial = disc || nonpos || par;
    if (disc) v.cls("layout-disconnected");
    if (nonpos) v.cls("layout-nonpositive-length");
    std::vector<double> D;
    std::vector<unsigned> G;
    {
        cola::ConstrainedFDLayout alg(rs, es, c.ideal, el);
        D = alg.readLinearD();
        G = alg.readLinearG();
    }
    for (auto r : rs) delete r;
    if (D.size() != (size_t)n * n || G.size() != (size_t)n * n) { v.fail("matrix has wrong size"); return v; }
    std::set<std::pair<unsigned, unsigned>> adj;
    for (auto &e : c.es) { adj.insert({e.u, e.v}); adj.insert({e.v, e.u}); }
    for (unsigned i = 0; i < n && v.ok; i++) for (unsigned j = 0; j < n && v.ok; j++) {
        double got = D[(size_t)n * i + j];
        if (i == j) { if (got != 0) v.fail(fmt("layout D[%u][%u]=%g, expected 0", i, j, got), "layoutD"); continue; }
        if (R[i][j] < 0) {
            if (got != INF) v.fail(fmt("layout D[%u][%u]=%.17g for different components (expected DBL_MAX)", i, j, got), "layoutD");
            if (G[(size_t)n * i + j] != 0) v.fail(fmt("layout G[%u][%u]=%u for different components", i, j, G[(size_t)n * i + j]), "layoutG");
        } else {
            long double want = (long double)c.ideal * R[i][j];
            if (got == INF || std::fabs((long double)got - want) > 1e-9L * std::max((long double)1.0, want))
                v.fail(fmt("layout D[%u][%u]=%.17g, idealLength*shortest path = %.17Lg", i, j, got, want), "layoutD");
            unsigned wantG = adj.count({i, j}) ? 1 : 2;
            if (G[(size_t)n * i + j] != wantG) v.fail(fmt("layout G[%u][%u]=%u expected %u", i, j, G[(size_t)n * i + j], wantG), "layoutG");
        }
    }
    return v;
}

Case gen_case(bool layout) {
    Case c;
    int maxn = tier_thorough() ? 120 : 30;
    c.n = sized(1, maxn);
    if (tier_thorough() && coin(1, 200)) c.n = irange(150, 300);
    int shape = irange(0, 5);     // 0 sparse, 1 dense, 2 forest/disconnected, 3 multigraph, 4 path-like, 5 anything
    int m;
    if (shape == 0) m = irange(0, c.n);
    else if (shape == 1) m = irange(c.n, 3 * c.n);
    else if (shape == 2) m = irange(0, std::max(0, (int)c.n - 2));
    else m = irange(0, 2 * c.n);
    int wkind = irange(0, 5);     // 0 unit(empty array) 1 eighths incl. 0, 2 integers, 3 log-uniform, 4 many zeros, 5 layout: some <=0
    c.unit = (wkind == 0);
    c.ideal = layout ? pick(std::vector<double>{1, 0.5, 20, 37.5, 100}) : 1;
    bool loops = shape == 3 || coin(1, 4), parallel = shape == 3 || coin(1, 4);
    if (layout) loops = coin(1, 8);
    std::set<std::pair<unsigned, unsigned>> seen;
    for (int k = 0; k < m; k++) {
        E e;
        e.u = irange(0, c.n - 1);
        if (shape == 4) e.v = std::min<unsigned>(c.n - 1, e.u + irange(0, 2));
        else e.v = irange(0, c.n - 1);
        if (shape == 3 && !c.es.empty() && coin(1, 3)) { e.u = c.es.back().u; e.v = c.es.back().v; if (coin(1, 2)) std::swap(e.u, e.v); }
        if (e.u == e.v && !loops) continue;
        auto key = std::make_pair(std::min(e.u, e.v), std::max(e.u, e.v));
        if (seen.count(key) && !parallel) continue;
        seen.insert(key);
        switch (wkind) {
            case 0: e.w = 1; break;
            case 1: e.w = irange(0, 40) / 8.0; break;
            case 2: e.w = irange(1, 100); break;
            case 3: e.w = std::ldexp(1.0 + irange(0, 1023) / 1024.0, irange(-10, 10)); break;
            case 4: e.w = coin(1, 2) ? 0.0 : irange(1, 16) / 4.0; break;
            default: e.w = layout ? (coin(1, 4) ? -irange(0, 3) * 0.5 : irange(1, 24) / 4.0) : irange(1, 1000) / 1000.0; break;
        }
        if (layout && wkind != 5 && e.w <= 0 && coin(1, 2)) e.w = 1.5;
        c.es.push_back(e);
    }
    return c;
}
} // namespace

int main(int argc, char **argv) {
    std::vector<Prop> props;
    props.push_back({"C17.apsp", 1.0,
        [] { Case c = gen_case(false); return record("C17.apsp", c.str(), [&] { return eval_apsp(c); }, true); },
        [](Reader &r) { return eval_apsp(Case::parse(r)); }, nullptr});
    props.push_back({"C17.layoutD", 0.5,
        [] { Case c = gen_case(true); return record("C17.layoutD", c.str(), [&] { return eval_layoutD(c); }, true); },
        [](Reader &r) { return eval_layoutD(Case::parse(r)); }, nullptr});
    return run_main(argc, argv, props);
}
