// C19: libdialect graph decompositions: peel(), getConnComps(), symmetric tree layout, OrthoPlanariser.
#include "common/verif.h"
#include "libdialect/commontypes.h"
#include "libdialect/graphs.h"
#include "libdialect/peeling.h"
#include "libdialect/trees.h"
#include "libdialect/opts.h"
#include "libdialect/routing.h"
#include "libdialect/planarise.h"
#include <numeric>

using namespace verif;
using namespace dialect;

namespace {
struct Case {
    int n = 0;
    std::vector<std::pair<int, int>> edges;
    std::vector<std::array<double, 4>> geom;        // cx cy w h
    int growth = 1; bool convex = true;
    std::string str() const {
        Writer w; w.tok("graph").i(n).i(edges.size()).i(growth).i(convex).nl();
        for (auto &g : geom) w.d(g[0]).d(g[1]).d(g[2]).d(g[3]).nl();
        for (auto &e : edges) w.i(e.first).i(e.second).nl();
        return w.str();
    }
    static Case parse(Reader &r) {
        Case c; r.expect("graph"); c.n = r.i(); size_t m = r.i(); c.growth = r.i(); c.convex = r.i();
        for (int i = 0; i < c.n; i++) { std::array<double, 4> g; for (auto &x : g) x = r.d(); c.geom.push_back(g); }
        for (size_t i = 0; i < m; i++) { int a = r.i(), b = r.i(); c.edges.push_back({a, b}); }
        return c;
    }
};
struct Built {
    Graph_SP g; std::vector<Node_SP> nodes; std::map<id_type, int> idx;
    explicit Built(const Case &c) : g(std::make_shared<Graph>()) {
        for (int i = 0; i < c.n; i++) { Node_SP u = Node::allocate(c.geom[i][0], c.geom[i][1], c.geom[i][2], c.geom[i][3]); g->addNode(u); nodes.push_back(u); idx[u->id()] = i; }
        for (auto &e : c.edges) g->addEdge(Edge::allocate(nodes[e.first], nodes[e.second]));
    }
};
struct UF { std::vector<int> p; explicit UF(int n) : p(n) { std::iota(p.begin(), p.end(), 0); } int f(int a) { return p[a] == a ? a : p[a] = f(p[a]); } bool u(int a, int b) { a = f(a); b = f(b); if (a == b) return false; p[a] = b; return true; } };
typedef std::pair<int, int> EK;
EK ek(int a, int b) { return {std::min(a, b), std::max(a, b)}; }

// ---------------------------------------------------------------- peel
Verdict eval_peel(const Case &c) {
    Verdict v;
    Built b(c);
    std::multiset<EK> inputEdges;
    for (auto &e : c.edges) inputEdges.insert(ek(e.first, e.second));
    bool inputIsTree = (int)c.edges.size() == c.n - 1;
    Trees trees = peel(*b.g);
    Graph &core = *b.g;
    // membership
    std::vector<int> inCore(c.n, 0), inTrees(c.n, 0), asRoot(c.n, 0);
    std::multiset<EK> partEdges;
    for (auto &p : core.getNodeLookup()) { if (!b.idx.count(p.first)) { v.fail("core contains a node that is not an input node", "peel-nodes"); return v; } inCore[b.idx[p.first]]++; }
    for (auto &p : core.getEdgeLookup()) { auto e = p.second->getEndIds(); partEdges.insert(ek(b.idx.at(e.first), b.idx.at(e.second))); }
    int bigTrees = 0;
    for (auto &t : trees) {
        Graph_SP tg = t->underlyingGraph();
        size_t tn = tg->getNumNodes(), te = tg->getNumEdges();
        if (tn >= 3) bigTrees++;
        if (te != tn - 1) { v.fail(fmt("a peeled tree has %zu nodes and %zu edges", tn, te), "tree-not-acyclic"); return v; }
        UF uf(c.n);
        id_type rootId = t->getRootNodeID();
        if (!b.idx.count(rootId)) { v.fail("tree root is not an input node", "peel-nodes"); return v; }
        for (auto &p : tg->getNodeLookup()) {
            if (!b.idx.count(p.first)) { v.fail("a tree contains a node that is not an input node", "peel-nodes"); return v; }
            int i = b.idx[p.first];
            if (p.first == rootId) asRoot[i]++; else inTrees[i]++;
        }
        int comps = (int)tn;
        for (auto &p : tg->getEdgeLookup()) { auto e = p.second->getEndIds(); int x = b.idx.at(e.first), y = b.idx.at(e.second); partEdges.insert(ek(x, y)); if (uf.u(x, y)) comps--; else { v.fail("a peeled tree contains a cycle", "tree-not-acyclic"); return v; } }
        if (comps != 1) { v.fail(fmt("a peeled tree is not connected (%d components)", comps), "tree-not-connected"); return v; }
    }
    for (int i = 0; i < c.n; i++) {
        // in the core, or in exactly one tree; tree roots are the only nodes a tree shares with the core.  (When the
        // input is itself a tree the core may be empty: then the root belongs to its one tree only.)
        int total = inCore[i] + inTrees[i] + ((!inCore[i] && asRoot[i] > 0) ? asRoot[i] : 0);
        if (total != 1) { v.fail(fmt("node %d: in the core %d times, in trees as a non-root %d times, as a root %d times", i, inCore[i], inTrees[i], asRoot[i]), "peel-not-a-partition"); return v; }
        if (asRoot[i] > 0 && !inCore[i] && !inputIsTree) { v.fail(fmt("node %d is a tree root but is not in the core", i), "root-not-in-core"); return v; }
    }
    if (partEdges != inputEdges) { v.fail(fmt("edges of core and trees (%zu) are not exactly the input edges (%zu)", partEdges.size(), inputEdges.size()), "peel-edges"); return v; }
    // a non-empty core has no node of degree one (a core that is a single node is what remains of a tree)
    size_t coreN = core.getNumNodes();
    if (coreN > 1) {
        std::map<int, int> deg;
        for (auto &p : core.getEdgeLookup()) { auto e = p.second->getEndIds(); deg[b.idx.at(e.first)]++; deg[b.idx.at(e.second)]++; }
        for (auto &p : core.getNodeLookup()) if (deg[b.idx[p.first]] < 2) { v.fail(fmt("core node %d has degree %d", b.idx[p.first], deg[b.idx[p.first]]), "core-has-leaf"); return v; }
    }
    if (inputIsTree && coreN > 1) { v.fail(fmt("the input is a tree but the core has %zu nodes", coreN), "tree-core"); return v; }
    v.nontrivial = bigTrees >= 1 && coreN > 1;
    if (inputIsTree) v.cls("input-is-tree");
    if (trees.empty()) v.cls("nothing-peeled");
    if (c.n >= 30) v.cls("n>=30");
    // symmetric layout of every peeled tree: no two nodes on top of each other
    for (auto &t : trees) {
        double maxDim = 0;
        for (auto &p : t->underlyingGraph()->getNodeLookup()) { dimensions d = p.second->getDimensions(); maxDim = std::max({maxDim, d.first, d.second}); }
        // rank separation is measured between rank centre lines: it has to exceed the largest node (HOLA passes the ideal edge length)
        t->symmetricLayout((CardinalDir)c.growth, 10.0, maxDim + 10.0, c.convex);
        std::vector<Node_SP> ns;
        for (auto &p : t->underlyingGraph()->getNodeLookup()) ns.push_back(p.second);
        for (size_t i = 0; i < ns.size() && v.ok; i++) for (size_t j = i + 1; j < ns.size() && v.ok; j++) {
            BoundingBox a = ns[i]->getBoundingBox(), bb = ns[j]->getBoundingBox();
            Avoid::Point ca = ns[i]->getCentre(), cb = ns[j]->getCentre();
            if (!std::isfinite(ca.x) || !std::isfinite(ca.y)) v.fail("symmetricLayout produced a non-finite position", "tree-layout");
            double ox = std::min(a.X, bb.X) - std::max(a.x, bb.x), oy = std::min(a.Y, bb.Y) - std::max(a.y, bb.y);
            if ((ca.x == cb.x && ca.y == cb.y) || (ox > 1e-6 && oy > 1e-6))
                v.fail(fmt("symmetricLayout: tree nodes %d and %d overlap (centres (%g,%g) (%g,%g))", b.idx[ns[i]->id()], b.idx[ns[j]->id()], ca.x, ca.y, cb.x, cb.y), "tree-layout-overlap");
        }
        if (t->size() >= 4) v.cls("tree-layout>=4-nodes");
    }
    return v;
}

// ---------------------------------------------------------------- connected components
Verdict eval_comps(const Case &c) {
    Verdict v;
    Built b(c);
    UF uf(c.n);
    for (auto &e : c.edges) uf.u(e.first, e.second);
    std::set<int> roots; for (int i = 0; i < c.n; i++) roots.insert(uf.f(i));
    std::vector<Graph_SP> comps = b.g->getConnComps();
    v.nontrivial = roots.size() >= 2;
    if (comps.size() != roots.size()) { v.fail(fmt("getConnComps returned %zu components, the graph has %zu", comps.size(), roots.size()), "comp-count"); return v; }
    std::vector<int> seen(c.n, 0);
    std::multiset<EK> edges, want;
    for (auto &e : c.edges) want.insert(ek(e.first, e.second));
    for (auto &cg : comps) {
        int root = -1;
        for (auto &p : cg->getNodeLookup()) {
            if (!b.idx.count(p.first)) { v.fail("component contains a foreign node", "comp-nodes"); return v; }
            int i = b.idx[p.first]; seen[i]++;
            if (root < 0) root = uf.f(i); else if (uf.f(i) != root) { v.fail("a returned component spans two components of the graph", "comp-mixed"); return v; }
        }
        for (auto &p : cg->getEdgeLookup()) { auto e = p.second->getEndIds(); if (!cg->getNodeLookup().count(e.first) || !cg->getNodeLookup().count(e.second)) { v.fail("a component has an edge leaving it", "comp-edge-across"); return v; } edges.insert(ek(b.idx.at(e.first), b.idx.at(e.second))); }
    }
    for (int i = 0; i < c.n; i++) if (seen[i] != 1) { v.fail(fmt("node %d appears in %d components", i, seen[i]), "comp-not-a-partition"); return v; }
    if (edges != want) v.fail("edges of the components are not exactly the input edges", "comp-edges");
    return v;
}

// ---------------------------------------------------------------- planarise
struct SegQ { double x0, y0, x1, y1; id_type a, b; };
Verdict eval_planar(const Case &c) {
    Verdict v;
    Built b(c);
    HolaOpts opts;
    LeaflessOrthoRouter lor(b.g, opts);
    lor.setShapeBufferDistanceIELScalar(0.125);
    lor.route();
    // input crossings (for the non-triviality rule)
    std::vector<std::vector<Avoid::Point>> routes;
    for (auto &p : b.g->getEdgeLookup()) routes.push_back(p.second->getRoute());
    auto cross = [](const Avoid::Point &a, const Avoid::Point &bb, const Avoid::Point &cc, const Avoid::Point &d) {
        auto o = [](const Avoid::Point &p, const Avoid::Point &q, const Avoid::Point &r) { return (q.x - p.x) * (r.y - p.y) - (q.y - p.y) * (r.x - p.x); };
        double d1 = o(a, bb, cc), d2 = o(a, bb, d), d3 = o(cc, d, a), d4 = o(cc, d, bb);
        return ((d1 > 0 && d2 < 0) || (d1 < 0 && d2 > 0)) && ((d3 > 0 && d4 < 0) || (d3 < 0 && d4 > 0));
    };
    int inCross = 0;
    for (size_t i = 0; i < routes.size(); i++) for (size_t j = i + 1; j < routes.size(); j++) for (size_t k = 1; k < routes[i].size(); k++) for (size_t l = 1; l < routes[j].size(); l++)
        if (cross(routes[i][k - 1], routes[i][k], routes[j][l - 1], routes[j][l])) inCross++;
    for (auto &r : routes) for (size_t k = 1; k < r.size(); k++) if (r[k].x != r[k - 1].x && r[k].y != r[k - 1].y) { v.cls("router-left-a-diagonal(unjudged)"); return v; }
    v.nontrivial = inCross >= 1;
    if (inCross >= 3) v.cls("input-crossings>=3");
    OrthoPlanariser op(b.g);
    Graph_SP Q = op.planarise();
    // every original node is still there
    for (auto &p : b.idx) if (!Q->getNodeLookup().count(p.first)) { v.fail(fmt("original node %d is missing from the planarised graph", p.second), "planar-node-missing"); return v; }
    // geometry of Q's edges: straight segments between node centres (or their stored routes)
    std::vector<SegQ> segs;
    for (auto &p : Q->getEdgeLookup()) {
        auto e = p.second->getEndIds();
        std::vector<Avoid::Point> r = p.second->getRoute();
        if (r.size() < 2) r = {Q->getNodeLookup().at(e.first)->getCentre(), Q->getNodeLookup().at(e.second)->getCentre()};
        for (size_t k = 1; k < r.size(); k++) segs.push_back({r[k - 1].x, r[k - 1].y, r[k].x, r[k].y, e.first, e.second});
    }
    for (size_t i = 0; i < segs.size() && v.ok; i++) for (size_t j = i + 1; j < segs.size() && v.ok; j++) {
        const SegQ &s = segs[i], &t = segs[j];
        Avoid::Point a(s.x0, s.y0), bb(s.x1, s.y1), cc(t.x0, t.y0), d(t.x1, t.y1);
        if (cross(a, bb, cc, d)) v.fail(fmt("planarised edges (%g,%g)-(%g,%g) and (%g,%g)-(%g,%g) cross", s.x0, s.y0, s.x1, s.y1, t.x0, t.y0, t.x1, t.y1), "planar-crossing");
        // collinear overlap of positive length
        bool sv = s.x0 == s.x1, tv = t.x0 == t.x1, sh = s.y0 == s.y1, th = t.y0 == t.y1;
        if (v.ok && sv && tv && s.x0 == t.x0 && std::min(std::max(s.y0, s.y1), std::max(t.y0, t.y1)) - std::max(std::min(s.y0, s.y1), std::min(t.y0, t.y1)) > 1e-9)
            v.fail(fmt("planarised edges overlap along x=%g: edge %u-%u y[%g,%g] and edge %u-%u y[%g,%g]", s.x0, (unsigned)s.a, (unsigned)s.b, s.y0, s.y1, (unsigned)t.a, (unsigned)t.b, t.y0, t.y1), "planar-overlap");
        if (v.ok && sh && th && s.y0 == t.y0 && !(sv && tv) && std::min(std::max(s.x0, s.x1), std::max(t.x0, t.x1)) - std::max(std::min(s.x0, s.x1), std::min(t.x0, t.x1)) > 1e-9)
            v.fail(fmt("planarised edges overlap along y=%g", s.y0), "planar-overlap");
    }
    if (!v.ok) return v;
    // every original edge: its ends are joined through a chain of new (non-original) nodes
    std::map<id_type, std::vector<id_type>> adj;
    for (auto &p : Q->getEdgeLookup()) { auto e = p.second->getEndIds(); adj[e.first].push_back(e.second); adj[e.second].push_back(e.first); }
    for (auto &e : c.edges) {
        id_type s = b.nodes[e.first]->id(), t = b.nodes[e.second]->id();
        std::set<id_type> seen{s};
        std::vector<id_type> st{s};
        bool found = false;
        while (!st.empty() && !found) {
            id_type u = st.back(); st.pop_back();
            for (id_type w : adj[u]) {
                if (w == t) { found = true; break; }
                if (b.idx.count(w) || seen.count(w)) continue;       // only through new nodes
                seen.insert(w); st.push_back(w);
            }
        }
        if (!found) { v.fail(fmt("original edge %d-%d is no longer realised by a chain of new nodes in the planarised graph", e.first, e.second), "planar-edge-lost"); return v; }
    }
    return v;
}

// ---------------------------------------------------------------- generators
Case gen_graph(int maxn, bool connected, bool leafless) {
    Case c;
    c.n = sized(leafless ? 3 : 1, maxn);
    std::set<EK> E;
    auto add = [&](int a, int b) { if (a != b) E.insert(ek(a, b)); };
    int fam = irange(0, 4);      // 0 random 1 tree 2 cycle 3 core with hanging trees 4 peels away completely (caterpillar)
    if (leafless) fam = irange(2, 3);
    if (fam == 0) { int m = irange(0, 2 * c.n); for (int i = 0; i < m; i++) add(irange(0, c.n - 1), irange(0, c.n - 1)); if (connected) for (int i = 1; i < c.n; i++) add(irange(0, i - 1), i); }
    else if (fam == 1 || fam == 4) { for (int i = 1; i < c.n; i++) add(fam == 4 ? std::max(0, i - irange(1, 2)) : irange(0, i - 1), i); }
    else if (fam == 2) { for (int i = 0; i < c.n; i++) add(i, (i + 1) % c.n); for (int k = irange(0, c.n / 2); k > 0; k--) add(irange(0, c.n - 1), irange(0, c.n - 1)); }
    else {
        int core = leafless ? c.n : std::max(3, c.n / 2); core = std::min(core, c.n);
        for (int i = 0; i < core; i++) add(i, (i + 1) % core);
        for (int k = irange(0, core); k > 0; k--) add(irange(0, core - 1), irange(0, core - 1));
        for (int i = core; i < c.n; i++) add(irange(0, i - 1), i);
    }
    if (!connected && coin(1, 2)) { std::set<EK> F; int cut = irange(0, c.n); for (auto &e : E) if ((e.first < cut) == (e.second < cut)) F.insert(e); E = F; }
    c.edges.assign(E.begin(), E.end());
    // non-overlapping boxes on a jittered grid
    int cols = (int)std::ceil(std::sqrt((double)c.n));
    std::vector<int> slot(c.n); std::iota(slot.begin(), slot.end(), 0);
    for (int i = c.n - 1; i > 0; i--) std::swap(slot[i], slot[irange(0, i)]);
    for (int i = 0; i < c.n; i++) c.geom.push_back({(slot[i] % cols) * 120.0 + irange(-1, 1) * 20, (slot[i] / cols) * 120.0 + irange(-1, 1) * 20, (double)irange(2, 6) * 10, (double)irange(2, 6) * 10});   // exactly aligned or >= 20 apart
    c.growth = irange(0, 3); c.convex = coin(1, 2);
    return c;
}
} // namespace

int main(int argc, char **argv) {
    std::vector<Prop> props;
    auto add = [&](const char *name, double w, std::function<Case()> g, std::function<Verdict(const Case &)> e) {
        std::string n = name;
        props.push_back({n, w, [n, g, e] { Case c = g(); return record(n, c.str(), [&] { return e(c); }); }, [e](Reader &r) { return e(Case::parse(r)); }, nullptr});
    };
    add("C19.peel", 1.0, [] { return gen_graph(tier_thorough() ? 80 : 60, true, false); }, eval_peel);
    add("C19.comps", 0.5, [] { return gen_graph(60, false, false); }, eval_comps);
    add("C19.planarise", 0.05, [] { return gen_graph(tier_thorough() ? 20 : 12, true, true); }, eval_planar);
    return run_main(argc, argv, props);
}
