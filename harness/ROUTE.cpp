// C03 (routes join their endpoints and avoid obstacles), C04 (polyline routes are
// Euclidean shortest paths), C05 (orthogonal routes are axis-parallel and of minimum
// length + bend cost; the bend estimator is admissible).
#include "common/scene.h"

namespace Avoid { int bends(const Point &curr, unsigned int currDir, const Point &dest, unsigned int destDir); }

using namespace verif;
using namespace sc;

namespace {
std::string sceneStr(const Scene &s) { Writer w; s.put(w); return w.str(); }

struct Routed {
    Built b;
    std::vector<std::vector<P>> raw, disp;
    explicit Routed(const Scene &s) {
        build(s, b);
        try { b.router->processTransaction(); }
        catch (...) { b.abandon(); throw; }
        for (auto c : b.conns) { raw.push_back(toPts(c->route())); disp.push_back(toPts(c->displayRoute())); }
    }
};

// ---------------------------------------------------------------- C03
// An orthogonal end point lying exactly on a side of a shape's routing box (bounding box grown by the buffer distance),
// strictly between its corners, is outside the shape; an obstacle-free path from it exists if one exists from the point
// one unit further out and the step itself stays out of every routing box.  Other near-shape positions: not judged.
bool stepOut(const std::vector<Poly> &seen, double buf, const P &p, P &out, bool &onSide) {
    out = p; onSide = false;
    for (auto &sh : seen) {
        Box b = bbox(sh); double x0 = b.x0 - buf, x1 = b.x1 + buf, y0 = b.y0 - buf, y1 = b.y1 + buf;
        if (p.x < x0 || p.x > x1 || p.y < y0 || p.y > y1) continue;
        if (onSide) return false;                     // on two boxes at once
        if (p.x == x0 && p.y > y0 && p.y < y1) out.x -= 1; else if (p.x == x1 && p.y > y0 && p.y < y1) out.x += 1;
        else if (p.y == y0 && p.x > x0 && p.x < x1) out.y -= 1; else if (p.y == y1 && p.x > x0 && p.x < x1) out.y += 1;
        else return false;
        onSide = true;
    }
    if (!onSide) return true;
    for (auto &sh : seen) { Box b = bbox(sh); if (segEntersConvex(p, out, rectPoly(b.x0 - buf, b.y0 - buf, b.x1 + buf, b.y1 + buf), 1e-9)) return false; }
    return true;
}
Verdict eval_c03(const Scene &s) {
    Verdict v;
    Routed R(s);
    double buf = s.cfg.p(Avoid::shapeBufferDistance);
    bool touching = false, poly = false;
    for (size_t i = 0; i < s.shapes.size(); i++) {
        if (!isRect(s.shapes[i])) poly = true;
        for (size_t j = i + 1; j < s.shapes.size(); j++) if (!boxesApart(bbox(s.shapes[i]), bbox(s.shapes[j]), 1)) touching = true;
    }
    if (touching) v.cls("touching-shapes");
    if (poly) v.cls("convex-polygon-shape");
    if (buf > 0) v.cls("buffer>0");
    v.cls(s.cfg.flags == 2 ? "orthogonal" : "polyline");
    for (size_t i = 0; i < s.conns.size() && v.ok; i++) {
        const Conn &c = s.conns[i];
        // Orthogonal routing works on the shapes' bounding boxes; judge existence on what the router sees.
        std::vector<Poly> seen = s.shapes;
        if (c.type == 2) for (auto &p : seen) { Box b = bbox(p); p = rectPoly(b.x0, b.y0, b.x1, b.y1); }
        bool bends = false;
        for (auto &p : s.shapes) if (segEntersConvex(c.a, c.b, p, 1e-9)) bends = true;
        P ca = c.a, cb = c.b; bool sideA = false, sideB = false;
        if (c.type == 2 && (!stepOut(seen, buf, c.a, ca, sideA) || !stepOut(seen, buf, c.b, cb, sideB))) { v.cls("no-clear-path(unjudged)"); continue; }
        if (!clearPathExists(seen, ca, cb, buf + 0.5)) { v.cls("no-clear-path(unjudged)"); continue; }
        if (sideA || sideB) v.cls("endpoint-on-routing-box-side");
        if (bends) v.nontrivial = true;
        for (int which = 0; which < 2 && v.ok; which++) {
            const std::vector<P> &r = which ? R.raw[i] : R.disp[i];
            // With nudgeOrthogonalSegmentsConnectedToShapes the documentation allows nudging to move the end
            // segments (and with them the displayed end points); route() must still join the attachments.
            bool endsMayMove = !which && c.type == 2 && s.cfg.opt[Avoid::nudgeOrthogonalSegmentsConnectedToShapes];
            std::string bad = routeInvalid(r, c.a, c.b, s.shapes, 1e-7, nullptr, endsMayMove, buf);
            if (!bad.empty()) {
                // known finding F22: polyline routing among shapes whose (buffered) routing polygons touch or overlap
                bool close = false;
                for (size_t a = 0; a < s.shapes.size(); a++) for (size_t b2 = a + 1; b2 < s.shapes.size(); b2++) {
                    LD dmin = 1e300;
                    for (size_t k = 0; k < s.shapes[a].size(); k++) dmin = std::min(dmin, segPolyDist(s.shapes[a][k], s.shapes[a][(k + 1) % s.shapes[a].size()], s.shapes[b2]));
                    if (dmin <= 2 * buf + 1e-9) close = true;
                }
                v.fail(fmt("connector %zu %s: %s; route %s", i, which ? "route()" : "displayRoute()", bad.c_str(), ptsStr(r).c_str()),
                       bad.find("[through two of its vertices]") != std::string::npos ? "F26-sight-line-through-two-vertices" :
                       bad.find("mitred buffer polygon") != std::string::npos ? "F37-endpoint-in-mitred-buffer-zone" :
                       ((close && c.type == 1) ? "F22-polyline-invalid-route-among-close-shapes" : "invalid-route"));
            }
        }
        if (R.disp[i].size() > 2) v.cls("route-bends");
    }
    return v;
}

// ---------------------------------------------------------------- C04
Verdict eval_c04(const Scene &s) {
    Verdict v;
    Routed R(s);
    double pen = s.cfg.p(Avoid::segmentPenalty);
    v.cls(pen > 0 ? "segmentPenalty>0" : "penalty0");
    for (size_t i = 0; i < s.conns.size() && v.ok; i++) {
        const Conn &c = s.conns[i];
        VisGraph g(s.shapes, c.a, c.b);
        std::string bad = routeInvalid(R.disp[i], c.a, c.b, s.shapes, 1e-7);
        if (!bad.empty()) { v.fail(fmt("connector %zu: %s; route %s", i, bad.c_str(), ptsStr(R.disp[i]).c_str()), bad.find("[through two of its vertices]") != std::string::npos ? "F26-sight-line-through-two-vertices" : "invalid-route"); break; }
        int nb = 0;
        double cost = polyCost(R.disp[i], pen, &nb);
        if (pen == 0) {
            double L = g.shortest(0, false);
            if (L < 0) { v.cls("oracle-no-path"); continue; }
            if (nb >= 1) v.nontrivial = true;
            if (nb >= 3) v.cls("bends>=3");
            if (std::fabs(cost - L) > 1e-6)
                v.fail(fmt("connector %zu: route length %.9f, shortest obstacle-avoiding path %.9f; route %s", i, cost, L, ptsStr(R.disp[i]).c_str()), cost > L ? "longer-than-shortest" : "shorter-than-oracle");
        } else {
            double Lall = g.shortest(pen, false), Ltaut = g.shortest(pen, true);
            if (Lall < 0 || Ltaut < 0) { v.cls("oracle-no-path"); continue; }
            if (nb >= 1) v.nontrivial = true;
            if (std::fabs(Lall - Ltaut) <= 1e-9) v.cls("Lall==Ltaut"); else v.cls("Lall<Ltaut");
            if (cost < Lall - 1e-6 || cost > Ltaut + 1e-6)
                v.fail(fmt("connector %zu: length+%g*bends = %.9f (bends %d) outside [%.9f (any bends), %.9f (taut bends)]; route %s", i, pen, cost, nb, Lall, Ltaut, ptsStr(R.disp[i]).c_str()),
                       cost > Ltaut ? "costlier-than-optimum" : "cheaper-than-oracle");
        }
    }
    return v;
}

// ---------------------------------------------------------------- C05
// direction (0 +x,1 +y,2 -x,3 -y) of the first non-degenerate segment of r starting at index 0 / ending at the last point
int headingOf(const P &from, const P &to) { if (to.x > from.x) return 0; if (to.x < from.x) return 2; if (to.y > from.y) return 1; return 3; }
Verdict eval_c05(const Scene &s) {
    Verdict v;
    Routed R(s);
    double pen = s.cfg.p(Avoid::segmentPenalty), buf = s.cfg.p(Avoid::shapeBufferDistance);
    std::vector<Poly> rects;
    for (auto &p : s.shapes) { Box b = bbox(p); rects.push_back(rectPoly(b.x0 - buf, b.y0 - buf, b.x1 + buf, b.y1 + buf)); }
    if (buf > 0) v.cls("buffer>0");
    for (size_t i = 0; i < s.conns.size() && v.ok; i++) {
        const Conn &c = s.conns[i];
        bool restricted = c.adirs != 15 || c.bdirs != 15;
        int ob = 0, nb = 0;
        Conn open = c; open.adirs = open.bdirs = 15;
        double O = orthOptimum(rects, open, pen, &ob);
        if (O < 0) { v.cls("oracle-no-path"); continue; }
        bool axisParallel[2] = {true, true};
        for (int which = 0; which < 2; which++) {
            const std::vector<P> &r = which ? R.disp[i] : R.raw[i];
            for (size_t k = 1; k < r.size(); k++) if (r[k].x != r[k - 1].x && r[k].y != r[k - 1].y) {
                axisParallel[which] = false;
                // A connector whose direction flags admit no path in the router's graph is drawn as a straight line;
                // only unrestricted connectors (for which the oracle found a path) must be orthogonal.
                if (!restricted) v.fail(fmt("connector %zu %s: segment (%.17g,%.17g)-(%.17g,%.17g) is neither horizontal nor vertical", i, which ? "displayRoute()" : "route()", r[k - 1].x, r[k - 1].y, r[k].x, r[k].y), "not-orthogonal");
                break;
            }
        }
        if (!v.ok) break;
        if (!axisParallel[0]) { v.cls("restricted-unroutable(unjudged)"); continue; }
        std::string bad = routeInvalid(R.raw[i], c.a, c.b, s.shapes, 1e-7);
        if (!bad.empty()) { v.fail(fmt("connector %zu: %s; route %s", i, bad.c_str(), ptsStr(R.raw[i]).c_str()), "invalid-route"); break; }
        double C = orthCost(R.raw[i], pen, &nb);
        bool boxHasRect = false;
        for (auto &p : s.shapes) { Box b = bbox(p); if (b.x0 < std::max(c.a.x, c.b.x) && b.x1 > std::min(c.a.x, c.b.x) && b.y0 < std::max(c.a.y, c.b.y) && b.y1 > std::min(c.a.y, c.b.y)) boxHasRect = true; }
        if (ob >= 1 && boxHasRect) v.nontrivial = true;
        if (ob >= 3) v.cls("optimum-bends>=3");
        if (C < O - 1e-6) { v.fail(fmt("connector %zu: route costs %.9f (length + %g x %d bends), below the grid-search optimum %.9f; route %s", i, C, pen, nb, O, ptsStr(R.raw[i]).c_str()), "cheaper-than-oracle"); break; }
        if (!restricted) {
            if (C > O + 1e-6) {
                // known finding F14: the router never lets a route pass through another connector's endpoint
                std::vector<P> others;
                for (size_t j = 0; j < s.conns.size(); j++) if (j != i) { others.push_back(s.conns[j].a); others.push_back(s.conns[j].b); }
                double O2 = others.empty() ? -1 : orthOptimum(rects, open, pen, nullptr, &others);
                bool f14 = O2 >= 0 && std::fabs(C - O2) <= 1e-6;
                v.fail(fmt("connector %zu: route costs %.9f (length + %g x %d bends), grid-search optimum %.9f (%d bends)%s; route %s", i, C, pen, nb, O, ob,
                           f14 ? " [equals the optimum among paths that avoid other connectors' endpoints]" : fmt(" [optimum avoiding other endpoints: %.9f]", O2).c_str(), ptsStr(R.raw[i]).c_str()), f14 ? "F14-avoids-other-endpoints" : "costlier-than-optimum");
            }
            continue;
        }
        // Direction-restricted free endpoints.  The router only offers visibility lines in the permitted directions,
        // except for endpoints on the outer edge of the scene, whose flags it relaxes on purpose
        // (fixConnectionPointVisibilityOnOutsideOfVisibilityGraph).  Optimality is only a lower bound here (its
        // graph has no grid lines away from shape edges, which restricted ends can need); the directions themselves
        // are judged for endpoints strictly inside the scene's extent.
        v.cls("direction-restricted");
        std::vector<P> r;
        for (auto &q : R.raw[i]) if (r.empty() || !(r.back() == q)) r.push_back(q);
        double xlo = 1e300, xhi = -1e300, ylo = 1e300, yhi = -1e300;
        for (auto &rc : rects) { Box b = bbox(rc); xlo = std::min(xlo, b.x0); xhi = std::max(xhi, b.x1); ylo = std::min(ylo, b.y0); yhi = std::max(yhi, b.y1); }
        for (auto &o : s.conns) for (const P *q : {&o.a, &o.b}) { xlo = std::min(xlo, q->x); xhi = std::max(xhi, q->x); ylo = std::min(ylo, q->y); yhi = std::max(yhi, q->y); }
        auto interior = [&](const P &e) { return e.x > xlo && e.x < xhi && e.y > ylo && e.y < yhi; };
        if (r.size() >= 2) {
            int h0 = headingOf(r[0], r[1]), h1 = headingOf(r[r.size() - 1], r[r.size() - 2]);
            if (interior(c.a)) { v.cls("source-direction-judged"); if (!(c.adirs & dirFlag(h0))) v.fail(fmt("connector %zu leaves its source in direction flag %d, permitted flags %d; route %s", i, dirFlag(h0), c.adirs, ptsStr(r).c_str()), "direction-violated"); }
            if (interior(c.b)) { v.cls("target-direction-judged"); if (!(c.bdirs & dirFlag(h1))) v.fail(fmt("connector %zu reaches its target from direction flag %d, permitted flags %d; route %s", i, dirFlag(h1), c.bdirs, ptsStr(r).c_str()), "direction-violated"); }
        }
    }
    return v;
}

// ---------------------------------------------------------------- C05 bend estimator, exhaustive
// reference: fewest bends from `curr` travelling in direction cd to `dest` arriving in direction dd, in the
// free plane; a turn must be followed by a move (no zero-length segments), reversal in place is impossible.
int refBends(int dx, int dy, int cd, int dd) {     // dest at origin, curr at (dx,dy); dirs 0=N(-y) 1=E(+x) 2=S(+y) 3=W(-x)
    const int R = 6, W = 2 * R + 1;
    static const int mx[4] = {0, 1, 0, -1}, my[4] = {-1, 0, 1, 0};
    std::vector<int> dist((size_t)W * W * 4, 1 << 20);
    std::deque<std::array<int, 3>> dq;
    auto id = [&](int x, int y, int h) { return ((x + R) * W + (y + R)) * 4 + h; };
    dist[id(dx, dy, cd)] = 0;
    dq.push_back({dx, dy, cd});
    while (!dq.empty()) {
        auto [x, y, h] = dq.front(); dq.pop_front();
        int d = dist[id(x, y, h)];
        for (int nh = 0; nh < 4; nh++) {
            if (nh == (h + 2) % 4) continue;
            int nx = x + mx[nh], ny = y + my[nh];
            if (nx < -R || nx > R || ny < -R || ny > R) continue;
            int nd = d + (nh != h);
            if (nd < dist[id(nx, ny, nh)]) { dist[id(nx, ny, nh)] = nd; if (nh == h) dq.push_front({nx, ny, nh}); else dq.push_back({nx, ny, nh}); }
        }
    }
    return dist[id(0, 0, dd)];
}
bool exhaustive_bends() {
    int si, sn; shard(si, sn);
    if (si != 0) return true;
    Stats &st = S();
    static const unsigned flag[4] = {1, 2, 4, 8};          // CostDirectionN/E/S/W
    static const char *nm[4] = {"N", "E", "S", "W"};
    long strict = 0, total = 0;
    for (int dx = -3; dx <= 3; dx++) for (int dy = -3; dy <= 3; dy++) {
        if (!dx && !dy) continue;                          // estimatedCostSpecific only calls bends() when dist > 0
        for (int cd = 0; cd < 4; cd++) for (int dd = 0; dd < 4; dd++) {
            Avoid::Point curr(10 + dx * 2.5, 20 + dy * 2.5), dest(10, 20);
            int ref = refBends(dx, dy, cd, dd), got = -1;
            Verdict v = guarded([&] { Verdict t; got = Avoid::bends(curr, flag[cd], dest, flag[dd]); return t; });
            st.evaluations++; total++;
            st.distinct_by_construction++;
            if (got < ref) strict++;
            std::string body = fmt("bends %d %d %d %d", dx, dy, cd, dd);
            if (v.aborted || got > ref) {
                write_file(st.dir + "/pending.case", "prop C05.bends\n" + body + "\n");
                fprintf(stderr, "FAIL prop=C05.bends: bends(curr=dest+(%d,%d), travelling %s, arriving %s) = %d, true minimum %d%s\n", dx, dy, nm[cd], nm[dd], got, ref, v.aborted ? " (assertion)" : "");
                return false;
            }
        }
    }
    st.classes["bends-estimate-strictly-below-minimum"] += strict;
    st.classes["bends-table-entries"] += total;
    st.exhaustive.push_back("Avoid::bends for all 48 relative positions (dx,dy in -3..3) x 4 travel x 4 arrival directions against a 0-1 BFS over (cell, heading)");
    return true;
}
Verdict replay_bends(Reader &r) {
    Verdict v;
    r.expect("bends");
    int dx = r.i(), dy = r.i(), cd = r.i(), dd = r.i();
    static const unsigned flag[4] = {1, 2, 4, 8};
    int ref = refBends(dx, dy, cd, dd);
    int got = Avoid::bends(Avoid::Point(10 + dx * 2.5, 20 + dy * 2.5), flag[cd], Avoid::Point(10, 20), flag[dd]);
    if (got > ref) v.fail(fmt("bends estimate %d exceeds the true minimum %d for offset (%d,%d) dirs %d->%d", got, ref, dx, dy, cd, dd), "bends-inadmissible");
    return v;
}

// ---------------------------------------------------------------- generators
void genConns(Scene &s, int span, double clear, int type, int maxConns, bool dirs, bool distinctLines = false) {
    int k = irange(1, maxConns);
    for (int i = 0; i < k; i++) {
        Conn c;
        c.type = type;
        if (!genFreePoint(s, span, clear, c.a) || !genFreePoint(s, span, clear, c.b)) continue;
        if (c.a == c.b) continue;
        if (distinctLines) {   // F14: orthogonal routes never pass through another connector's endpoint; excluded by construction
            bool clash = false;
            for (auto &o : s.conns) for (const P *q : {&o.a, &o.b}) for (const P *e : {&c.a, &c.b}) if (q->x == e->x || q->y == e->y) clash = true;
            if (clash) continue;
        }
        if (dirs && coin(1, 2)) { c.adirs = irange(1, 15); c.bdirs = irange(1, 15); }
        s.conns.push_back(c);
    }
}
Scene gen_c03() {
    Scene s;
    bool orth = coin(1, 2);
    s.cfg.flags = orth ? 2 : 1;
    int span = irange(20, 80);
    bool tight = coin(3, 10);
    genShapes(s, tier_thorough() ? 16 : 12, span, tight ? 0 : irange(0, 2), 35, tight);
    double buf = pick(std::vector<double>{0, 0, 1, 2.5});
    s.cfg.param[Avoid::shapeBufferDistance] = buf;
    s.cfg.param[Avoid::segmentPenalty] = orth ? pick(std::vector<double>{10, 50, 1}) : pick(std::vector<double>{0, 10, 50});
    s.cfg.param[Avoid::anglePenalty] = orth ? 0 : pick(std::vector<double>{0, 0, 5});
    s.cfg.param[Avoid::crossingPenalty] = pick(std::vector<double>{0, 0, 50});
    s.cfg.param[Avoid::idealNudgingDistance] = pick(std::vector<double>{4, 1, 0.5, 8});
    for (int k = 0; k < N_OPT; k++) if (coin(1, 4)) s.cfg.opt[k] = !s.cfg.opt[k];
    genConns(s, span, buf + 1, orth ? 2 : 1, 6, false);
    return s;
}
// Orthogonal scenes in which end points lie exactly on a side of a shape's routing box (distance to the shape = buffer distance).
Scene gen_c03_side() {
    Scene s;
    s.cfg.flags = 2;
    int span = irange(20, 80);
    genShapes(s, tier_thorough() ? 12 : 8, span, irange(1, 2), 0, false);
    double buf = pick(std::vector<double>{0, 1, 2, 0.5});
    s.cfg.param[Avoid::shapeBufferDistance] = buf;
    s.cfg.param[Avoid::segmentPenalty] = pick(std::vector<double>{10, 50, 1});
    s.cfg.param[Avoid::idealNudgingDistance] = pick(std::vector<double>{4, 1, 0.5});
    genConns(s, span, buf + 1, 2, 1, false);     // one connector per router (other connectors' end points interfere: F14)
    for (auto &c : s.conns) for (P *e : {coin(1, 2) ? &c.a : &c.b}) {     // one end on a side, the other in free space
        if (s.shapes.empty()) continue;
        size_t k = irange(0, (int)s.shapes.size() - 1);
        Box b = bbox(s.shapes[k]); double x0 = b.x0 - buf, x1 = b.x1 + buf, y0 = b.y0 - buf, y1 = b.y1 + buf;
        if (x1 - x0 < 2 || y1 - y0 < 2) continue;
        int side = irange(0, 3);
        P p;
        if (side < 2) { p.x = side ? x1 : x0; p.y = std::floor(y0) + irange(1, (int)(y1 - y0) - 1); if (!(p.y > y0 && p.y < y1)) continue; }
        else { p.y = side == 3 ? y1 : y0; p.x = std::floor(x0) + irange(1, (int)(x1 - x0) - 1); if (!(p.x > x0 && p.x < x1)) continue; }
        bool ok = true;
        for (size_t j = 0; j < s.shapes.size(); j++) if (j != k) { Box o = bbox(s.shapes[j]); if (p.x > o.x0 - buf - 1 && p.x < o.x1 + buf + 1 && p.y > o.y0 - buf - 1 && p.y < o.y1 + buf + 1) ok = false; }
        if (ok) *e = p;
    }
    return s;
}
Scene gen_c04() {
    Scene s;
    s.cfg.flags = 1;
    for (double &p : s.cfg.param) p = 0;
    if (coin(1, 3)) s.cfg.param[Avoid::segmentPenalty] = pick(std::vector<double>{1, 5, 50});
    int span = irange(12, 60);
    genShapes(s, tier_thorough() ? 14 : 10, span, 1, 40, false);
    genConns(s, span, 1, 1, 4, false);
    return s;
}
Scene gen_c05() {
    Scene s;
    s.cfg.flags = 2;
    for (double &p : s.cfg.param) p = 0;
    s.cfg.param[Avoid::segmentPenalty] = pick(std::vector<double>{0.5, 1, 3, 10, 20, 100});
    s.cfg.param[Avoid::idealNudgingDistance] = 0.25;
    if (coin(1, 4)) s.cfg.param[Avoid::shapeBufferDistance] = pick(std::vector<double>{0.25, 0.5});
    int span = irange(12, 50);
    genShapes(s, tier_thorough() ? 12 : 9, span, s.cfg.param[Avoid::shapeBufferDistance] > 0 ? 2 : 1, 0, false);
    genConns(s, span, 1, 2, 1, true);   // one connector per router: see known finding F14
    return s;
}
} // namespace

int main(int argc, char **argv) {
    std::vector<Prop> props;
    auto add = [&](const char *name, double w, std::function<Scene()> g, std::function<Verdict(const Scene &)> e) {
        std::string n = name;
        props.push_back({n, w, [n, g, e] { Scene s = g(); RC_PRE(!s.conns.empty()); return record(n, sceneStr(s), [&] { return e(s); }); },
                         [e](Reader &r) { return e(Scene::get(r)); }, nullptr});
    };
    add("C03.valid", 1.0, gen_c03, eval_c03);
    add("C03.side", 0.5, gen_c03_side, eval_c03);
    add("C04.shortest", 1.0, gen_c04, eval_c04);
    props.push_back({"C05.bends", 0, nullptr, replay_bends, exhaustive_bends});
    add("C05.orth", 1.0, gen_c05, eval_c05);
    return run_main(argc, argv, props);
}
