// C15 regression scripts: tiny fixed API histories that once failed (memory errors / leaks found by the
// libFuzzer target), replayed under ASan+UBSan+LSan.  Each case file names a script and its parameter.
#include "common/verif.h"
#include "libavoid/libavoid.h"
using namespace verif;
extern "C" int __lsan_do_recoverable_leak_check(void);
namespace {
Verdict teardown(Reader &r) {
    Verdict v;
    using namespace Avoid;
    r.expect("mode"); int mode = (int)r.i();
    Router *router = new Router(mode >= 10 ? OrthogonalRouting : PolyLineRouting);
    if (mode == 1) { Rectangle q(Point(0, 0), Point(10, 10)); new ShapeRef(router, q); }
    if (mode == 2) new JunctionRef(router, Point(43, 43));
    if (mode == 3) new ConnRef(router, ConnEnd(Point(30, 30)), ConnEnd(Point(50, 30)));
    if (mode == 4) { new JunctionRef(router, Point(43, 43)); new JunctionRef(router, Point(43, 43)); }
    if (mode == 5) { Rectangle q(Point(0, 0), Point(10, 10)); ShapeRef *s = new ShapeRef(router, q); router->processTransaction(); router->deleteShape(s); }
    if (mode == 6) { ConnRef *c = new ConnRef(router, ConnEnd(Point(30, 30)), ConnEnd(Point(50, 30))); router->processTransaction(); router->deleteConnector(c); }
    if (mode == 7) {   // junction connector processed before it has a route (transactions off)
        router->setTransactionUse(false);
        JunctionRef *j = new JunctionRef(router, Point(0, 48));
        new ConnRef(router, ConnEnd(j), ConnEnd(Point(4, 4)));
        Rectangle q(Point(-10, 35), Point(-9, 36)); new ShapeRef(router, q);
    }
    if (mode == 8) {   // transactions off: deleting a junction destroys its pins inside processActions()
        router->setTransactionUse(false);
        JunctionRef *j = new JunctionRef(router, Point(43, 43));
        new ConnRef(router, ConnEnd(j), ConnEnd(Point(85, -10)));
        router->deleteJunction(j);
    }
    if (mode == 9) {   // transactions off: a pin added to a shape that a connector is already attached to
        router->setTransactionUse(false);
        Rectangle q(Point(80, 43), Point(96, 64)); ShapeRef *s = new ShapeRef(router, q);
        new ShapeConnectionPin(s, 1, 0.25, 0, true, 0, ConnDirUp);
        new ConnRef(router, ConnEnd(s, 1), ConnEnd(Point(39, 90)));
        new ShapeConnectionPin(s, 1, 1, 0.25, true, 0, ConnDirRight);
    }
    if (mode == 10) {  // transactions off: moving a junction that a connector is attached to (unbounded recursion before 02941db)
        router->setTransactionUse(false);
        JunctionRef *j = new JunctionRef(router, Point(10, 10));
        new ConnRef(router, ConnEnd(j), ConnEnd(Point(50, 60)));
        router->moveJunction(j, Point(20, 20));
    }
    if (mode == 11) {  // connector attached to a junction that is deleted in the same transaction (stale queued ConnEnd before e107f1d)
        JunctionRef *j = new JunctionRef(router, Point(3, -6));
        router->processTransaction();
        new ConnRef(router, ConnEnd(Point(-7, 89)), ConnEnd(j));
        router->deleteJunction(j);
        router->processTransaction();
    }
    if (mode == 12) {  // the same with a shape pin
        Rectangle q(Point(1, 89), Point(18, 108)); ShapeRef *s = new ShapeRef(router, q);
        new ShapeConnectionPin(s, 1, 1, 0.25, true, 0, ConnDirRight);
        ConnRef *c = new ConnRef(router, ConnEnd(Point(0, -7)), ConnEnd(Point(3, 0)));
        router->processTransaction();
        c->setSourceEndpoint(ConnEnd(s, 1));
        router->deleteShape(s);
        router->processTransaction();
    }
    if (mode == 13) {  // transactions off + hyperedge improvement that deletes objects (re-entered processTransaction before 02941db, F33)
        router->setTransactionUse(false);
        router->setRoutingOption(improveHyperedgeRoutesMovingAddingAndDeletingJunctions, true);
        JunctionRef *j0 = new JunctionRef(router, Point(43, 43)), *j1 = new JunctionRef(router, Point(43, 43)), *j2 = new JunctionRef(router, Point(43, 27));
        new ConnRef(router, ConnEnd(j0), ConnEnd(Point(19, 19)));
        new ConnRef(router, ConnEnd(j0), ConnEnd(Point(70, 19)));
        new ConnRef(router, ConnEnd(j1), ConnEnd(Point(19, 70)));
        new ConnRef(router, ConnEnd(j1), ConnEnd(Point(70, 70)));
        new ConnRef(router, ConnEnd(j1), ConnEnd(j0));
        new ConnRef(router, ConnEnd(j2), ConnEnd(Point(90, 27)));
        new ConnRef(router, ConnEnd(j2), ConnEnd(j0));
    }
    if (mode == 14) {  // F34 (open): a hyperedge with a cycle is skipped by the improver and its tree is leaked
        router->setRoutingOption(improveHyperedgeRoutesMovingAddingAndDeletingJunctions, true);
        JunctionRef *j0 = new JunctionRef(router, Point(5, -1)), *j2 = new JunctionRef(router, Point(8, 40));
        new ConnRef(router, ConnEnd(j0), ConnEnd(j2));
        new ConnRef(router, ConnEnd(j0), ConnEnd(j2));
        new ConnRef(router, ConnEnd(j0), ConnEnd(Point(60, 8)));
        new ConnRef(router, ConnEnd(j2), ConnEnd(Point(-6, 52)));
        router->processTransaction();
    }
    delete router;
    if (__lsan_do_recoverable_leak_check()) v.fail(fmt("teardown script %d leaks memory (see the LeakSanitizer report above)", mode), mode == 14 ? "leak:cyclic-hyperedge" : "leak");
    v.nontrivial = true;
    return v;
}
} // namespace
int main(int argc, char **argv) {
    std::vector<Prop> props;
    props.push_back({"C15.teardown", 0, nullptr, teardown, nullptr});
    return run_main(argc, argv, props);
}
