#!/bin/bash
# confirm_seed.sh <ID> [name]: independently confirm a sub-agent's seeded change in its scratch worktree /tmp/seed/<ID>:
#  1. the patch is what is applied; 2. the existing suite passes with it; 3. demo fails with it; 4. demo passes without it.
# On success copies patch.diff, demo.cpp, NOTES.txt into /verif/seeded/<name>/ and removes the worktree.
set -u
ID=$1; NAME=${2:-$1}; W=/tmp/seed/$ID; OUT=/verif/seeded/$NAME
cd $W || exit 2
LIBS="$W/cola/libdialect/.libs/libdialect.a $W/cola/libtopology/.libs/libtopology.a $W/cola/libcola/.libs/libcola.a $W/cola/libavoid/.libs/libavoid.a $W/cola/libvpsc/.libs/libvpsc.a"
build_demo() { g++ -std=gnu++17 -I$W/cola $W/demo.cpp $LIBS -o $W/demo_confirm 2>$W/demo_build.log; }
git diff -- cola > $W/patch.confirm.diff
if ! diff -q <(grep '^[+-]' $W/patch.diff | grep -v '^index') <(grep '^[+-]' $W/patch.confirm.diff | grep -v '^index') >/dev/null; then echo "[$ID] NOTE: patch.diff differs from git diff; using git diff"; cp $W/patch.confirm.diff $W/patch.diff; fi
(cd cola && make -j8 >/dev/null 2>&1; make -k check -j8 > $W/suite.confirm.log 2>&1)
P=$(grep -h '^# PASS:' cola/*/tests/test-suite.log | awk '{s+=$3} END{print s}'); F=$(grep -h '^# FAIL:\|^# ERROR:' cola/*/tests/test-suite.log | awk '{s+=$3} END{print s}')
echo "[$ID] suite with change: PASS=$P FAIL+ERROR=$F"
build_demo || { echo "[$ID] demo does not build"; cat $W/demo_build.log | head; exit 1; }
timeout 600 $W/demo_confirm > $W/demo.with.log 2>&1; RW=$?
git apply -R $W/patch.diff || { echo "[$ID] cannot revert"; exit 1; }
(cd cola && make -j8 >/dev/null 2>&1)
build_demo; timeout 600 $W/demo_confirm > $W/demo.without.log 2>&1; RWO=$?
echo "[$ID] demo exit with change=$RW, without change=$RWO"
if [ "$P" = "178" ] && [ "$F" = "0" ] && [ $RW -ne 0 ] && [ $RWO -eq 0 ]; then
  mkdir -p $OUT; cp $W/patch.diff $W/demo.cpp $OUT/; cp $W/NOTES.txt $OUT/NOTES.txt 2>/dev/null
  echo "[$ID] CONFIRMED -> $OUT"
  cd /; git -C /repo worktree remove --force $W
else
  echo "[$ID] NOT CONFIRMED (worktree kept at $W)"; git -C $W apply $W/patch.diff
fi
