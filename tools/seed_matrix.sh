#!/bin/bash
# usage: tools/seed_matrix.sh [seeded|mutants|all] [name-filter]
# Runs every stored breaking change against the quick check of the property it targets (scratch worktree + VERIF_REPO,
# never /repo itself) and writes one line per change to seeded/RESULTS.txt (sub-agent changes) or mutants/RESULTS.txt.
set -u
cd /verif
WHAT=${1:-all}; FILT=${2:-}
run_set() {  # dir, pattern for patch path, results file
  local out=$3; local tmp=$(mktemp)
  for p in $2; do
    [ -f "$p" ] || continue
    case "$p" in *"$FILT"*) ;; *) continue;; esac
    local name; if [ "$(basename $p)" = patch.diff ]; then name=$(basename $(dirname $p)); else name=$(basename $p .patch); fi
    local id=${name:0:3}
    case "$name" in prefix-*) continue;; esac
    local t0=$(date +%s)
    local line; line=$(tools/mutant.sh "$p" "$id" 2>&1 | tail -1)
    rm -f replays/$id/pending-*
    echo "$name | $id | $(( $(date +%s) - t0 ))s | $line" | tee -a "$tmp"
  done
  if [ -z "$FILT" ]; then mv "$tmp" "$out"; else cat "$tmp" >> "$out"; rm -f "$tmp"; fi
}
[ "$WHAT" = seeded ] || [ "$WHAT" = all ] && run_set seeded "seeded/*/patch.diff" seeded/RESULTS.txt
[ "$WHAT" = mutants ] || [ "$WHAT" = all ] && run_set mutants "mutants/*.patch" mutants/RESULTS.txt
