NEEDS = {
 "C01-directed-path-shortcut": ("cola/libvpsc/block.cpp Block::isActiveDirectedPathBetween returns true on any constraint straight to v, active or not",
   "IncSolver on a FEASIBLE system whose constraint graph has a directed cycle of non-positive total gap (a negative-gap 'upper bound' edge against other constraints), >=3 variables, the most violated constraint has both ends already in one block and the back edge is slack: the constraint is flagged unsatisfiable and left violated.  DAG inputs are unaffected."),
 "C02-dfdv-left-scale": ("cola/libvpsc/block.cpp Block::compute_dfdv: dfdv -= c->lm * c->left->scale instead of c->right->scale",
   "non-unit scales with an active constraint whose two variables have DIFFERENT scales, in a block of >=3 variables whose active tree reaches that constraint through an 'in' list with one more active non-equality constraint before it; unit-scale runs are bit-identical."),
 "C03-scanline-wrong-member": ("cola/libavoid/scanline.cpp Node::findFirstPointAboveAndBelow: lastAbovePos takes curr->max[dim] instead of curr->min[dim]",
   "orthogonal routing, shapeBufferDistance > 0, two shapes closer to each other than the buffer and overlapping in the other axis (small shape sitting just above a wide one); the route then crosses the small shape.  Not with buffer 0, not for polyline."),
 "C04-validatebend-chord": ("cola/libavoid/connector.cpp validateBendPoint: vecDir(a, c, e) instead of vecDir(b, c, e)",
   "the shortest polyline path bends at a shape corner b with the turn a->b->c in the positive vecDir sense and the corner's next vertex on a particular side; the valid bend is rejected and a longer path is returned.  Independent of segmentPenalty."),
 "C05-astar-pending-f-vs-g": ("cola/libavoid/makepath.cpp AStarPathPrivate::search: a PENDING node is replaced if node.f < ati.g instead of node.g < ati.g",
   ">=2 rectangles arranged so that a vertex on the optimal orthogonal route is first reached with an extra bend and later more cheaply while its successor is still pending (entrance of a gap between two rectangles); about 0.3% of random 2-obstacle scenes, 1-3% with 3-6."),
 "C06-addblocker-stale": ("cola/libavoid/graph.cpp EdgeInf::addBlocker: m_blocker/m_dist only set when the edge was visible, so an already invisible edge keeps its stale blocker id",
   ">=3 transactions, polyline routing with the invisibility graph: an edge blocked by two obstacles X (recorded) and Y; X moves away while Y still blocks; later Y moves away: the edge is never re-checked and a connector keeps a detour a fresh router does not take."),
 "C09-thirdpass-tie-close": ("cola/libvpsc/rectangle.cpp generateXConstraints third-pass branch drops the constraint of an exactly touching pair when a node closes",
   "removeoverlaps(rs, fixed, thirdPass=true) with an EXACT tie B.minY == A.maxY surviving the first two passes, B's centre-x between A's and a third rectangle C's, A and C overlapping with positive area; 1 ulp of difference hides it."),
 "C10-stale-sepdist": ("cola/libavoid/orthogonal.cpp nudgeOrthogonalRoutes: sepDist hoisted out of the per-region loop, so a reduced separation distance carries over to the following regions",
   "nudging on, a NARROW channel shared by so many connectors that the ideal distance does not fit (so the distance is reduced and retried), and a second independent shared-path region of the SAME dimension that is wide enough and processed after it: its segments end up collinear/closer than needed."),
 "C11-setnewpoly-pins-not-updated": ("cola/libavoid/obstacle.cpp Obstacle::setNewPoly no longer re-positions the obstacle's connection pins",
   "within ONE transaction: create a shape with a pin (or a junction), attach a connector end to it, moveShape/moveJunction it with a non-trivial change, then processTransaction() (the move is folded into the queued add): the route ends at the pin position of the pre-move polygon.  Moves of already processed obstacles are unaffected."),
 "C12-remerged-split-connector-leaked": ("cola/libavoid/hyperedgeimprover.cpp removeZeroLengthEdges: a zero-length connector created earlier in the same pass is erased from the new list instead of being reported deleted (and is never freed/removed from the router)",
   "improveHyperedgeRoutesMovingAddingAndDeletingJunctions on, a hyperedge whose junction has >=4 connectors of which two leave along a common first segment (split) and later nudging brings the new junction back onto the old one (re-merge)."),
 "C16-antonio-beta-boundary": ("cola/libavoid/geometry.cpp segmentIntersectPoint: e < f -> e <= f on the negative-f branch",
   "two segments touching exactly at b2, the second end point of the second argument (beta == 1), with cross(a2-a1, b2-b1) < 0: DONT_INTERSECT instead of DO_INTERSECT; also collinear overlapping segments return DONT_INTERSECT instead of PARALLEL."),
 "C17-dijkstra-early-break": ("cola/libcola/shortest_paths.h dijkstra: breaks out at the first unreachable node in the queue, leaving the remaining d[] entries unwritten",
   "a DISCONNECTED graph and the single-source shortest_paths::dijkstra API with an output buffer that does not already hold DBL_MAX; johnsons, floyd_warshall and the layouts are unaffected."),
 "C18-tglf-negzero-bdry-eq": ("cola/libdialect/constraints.cpp SepPair::writeTglf: signbit(ygap) -> ygap < 0, so a stored -0.0 gap takes the other branch",
   "gap type BDRY, relation EQ, a vertical cardinal pair pointing NORTH with gap exactly zero (stored as -0.0), then writeTglf followed by a read: the round trip changes the constraint."),
 "C07-markinactive-index-not-reset": ("cola/libcola/compound_constraints.cpp markAllSubConstraintsAsInactive no longer resets _currSubConstraintIndex",
   "user compound constraints and a SECOND makeFeasible() over the same constraint objects (same layout object, or the two-stage recipe: stage 1 without, stage 2 with overlap avoidance, same CompoundConstraints vector) at positions that are not already feasible: the second walk starts at the end of the sub-constraint list, the constraints are neither enforced nor reported."),
 "C08-exempt-groups-accumulate": ("cola/libcola/cc_nonoverlapconstraints.cpp addExemptGroupOfNodes reuses one id vector across groups without clearing it",
   "setAvoidNodeOverlaps(true, groups) with >=2 exemption groups and a pair from DIFFERENT groups that only a non-overlap constraint keeps apart (coincident start, short ideal edge length): the pair is wrongly exempt and stays overlapping; one group, or long edges whose forces separate the nodes anyway, hide it."),
 "C13-straight-constraint-ydim-side": ("cola/libtopology/topology_constraints.cpp transferStraightConstraintChoose picks the wrong segment side in the y dimension",
   "within ONE vertical pass of the topology-preserving layout: two nodes whose facing vertical sides are on exactly the same x, on opposite sides of an edge segment spanning that x; the first node's corner creates a bend there (the tied straight constraint is transferred) and then the second node's TL/BR corner at the same x passes it: the constraint went to the wrong segment and the edge is pulled over the node."),
 "C14-tree-flip-bounds": ("cola/libdialect/trees.cpp Tree::flip computes the per-rank bounds from an already overwritten value (b[1] = -b[0]; b[0] = -b[1])",
   "HOLA on a pure tree containing a node P with a lopsided child subtree that is not first in placement order (so it is placed on the negative side and flipped) and something placed against P's lower per-rank bounds afterwards (a 4th child subtree >=2 ranks deep, or P under its parent): nodes overlap.  8/300 random recursive trees of 8-25 nodes; paths, stars, balanced trees never."),
 "C19-tree-flip-bounds": ("cola/libdialect/trees.cpp Tree::flip per-rank bounds swap broken (same root cause as C14-tree-flip-bounds, written independently for C19)",
   "Tree::symmetricLayout of a tree in which a LOPSIDED subtree (one child a plain leaf, one child carrying two leaves) is placed on the negative side of its parent and a further subtree is placed beyond it on that side (>=4 isomorphic children): tree nodes overlap.  About 1% of random trees <=25 nodes, 10% up to 60 nodes; symmetric trees never."),
 "C15-connref-dtor-queued-actions": ("cola/libavoid/connector.cpp ~ConnRef only removes the connector's queued actions when the connector is active",
   "transactions on; a connector that has a queued change but has never been processed (just constructed) is deleted with deleteConnector() BEFORE the next processTransaction(): use-after-free in processTransaction(), double free in ~Router.  Connectors routed at least once, and transactions-off mode, are unaffected."),
 "C20-astar-turn-exemption-axis": ("cola/libavoid/makepath.cpp A* turn pruning: the first-segment exemption of the horizontal-to-vertical block tests the source's column instead of its row",
   "orthogonal routing with a source that may only leave horizontally (ConnDirLeft/Right), cheapest route bending at a vertex with no further shape edge in the turn direction, compared with the same scene transposed or quarter-turned: cost 395 vs 305.  Mirrors, translation and repetition stay clean."),
 "C09-thirdpass-border-xy": ("cola/libvpsc/rectangle.cpp removeoverlaps third pass re-applies setXBorder(yBorder+EXTRA_GAP) instead of xBorder",
   "removeoverlaps with thirdPass=true, Rectangle::xBorder > Rectangle::yBorder (by more than 1e-3) and a pair whose y ranges still overlap after the vertical pass (resolved horizontally in the third pass): they stay overlapping by about 2*(xBorder-yBorder).  Equal borders (every in-tree caller) hide it."),
 "C11-abs-pin-max-offset": ("cola/libavoid/connectionpin.cpp ShapeConnectionPin::position(): absolute x offset at the right border computed as min.x + m_x_offset - inside instead of max.x - inside",
   "a pin created with proportional=false and xOffset == ATTACH_POS_MAX_OFFSET (-1): it lands left of the shape instead of on its right border; numeric offsets (including the full width), proportional pins and all y offsets are unaffected."),
 "C17-fd-zero-length-kept": ("cola/libcola/colafd.cpp ConstrainedFDLayout::computePathLengths replaces only negative edge lengths by 1 (<= 0 became < 0)",
   "ConstrainedFDLayout with a non-empty edge-length array containing an entry of exactly 0 on an edge between distinct nodes: the ideal-distance matrix (readLinearD) has 0 there and every path through it is too short; negative, positive and default lengths and the raw shortest-path functions are unaffected."),
 "C03-firstpointabove-boundary-endpoint": ("cola/libavoid/scanline.cpp Node::firstPointAbove: curr->max[dim] <= pos became < pos",
   "orthogonal routing, a free (pin-less) endpoint lying exactly on the right or bottom side of a shape's routing box, strictly between its corners, with the cheapest path heading through that shape: the endpoint sees straight through the shape.  Endpoints strictly outside or inside, left/top sides and polyline routing are unaffected."),
 "C07-multisep-equality-dropped": ("cola/libcola/compound_constraints.cpp MultiSeparationConstraint::generateSeparationConstraints() no longer passes `equality` to vpsc::Constraint",
   "a MultiSeparationConstraint built with equality=true, followed by run() with stress wanting the two alignment lines further apart than sep: the gap ends larger than sep and nothing is reported; makeFeasible() alone stays correct (its path still passes equality)."),
 "C13-resize-br-substitute": ("cola/libtopology/resize.cpp SubstituteNodes::operator()(EdgePoint*): BR corner attached to the RHS sliver in both axes (pos=RHS instead of dim==HORIZONTAL?RHS:LHS)",
   "topology::applyResizes (a cola::Resize / ResizeMap, not a move) on a node that has an edge bending round its bottom-right corner, vertical pass only: the bend jumps to the opposite corner and the path cuts through the resized node."),
 "C08-child-cluster-top-bound": ("cola/libcola/cc_clustercontainmentconstraints.cpp: the sub-constraint keeping a child cluster's max side inside its parent uses the child's min-side variable (clusterVarId instead of clusterVarId + 1)",
   "clusters nested two levels deep (root -> P -> C): C's max-y side is no longer held inside P, an outside node pulled towards C's members can land on them; in the author's demo the overlap only persists when x is blocked by an alignment, and on that input the changed library also reports unsatisfiable constraints, i.e. the property's precondition ('no constraint reported unsatisfiable') is not met."),
 "C12-new-connector-list-old-conn": ("cola/libavoid/hyperedgeimprover.cpp moveJunctionAlongCommonEdge: m_new_connectors gets the tree edge's old connector (push before the edge is re-labelled) instead of the new junction-to-junction connector",
   "improveHyperedgeRoutesMovingAddingAndDeletingJunctions on, a junction of degree >= 4 with two edges sharing a first segment (so the junction is split): newConnectorList reports a connector that existed before the transaction and omits the new live one; routes and topology are untouched."),
 "C14-core-constraints-rot-cw": ("cola/libdialect/hola.cpp doHOLA aspect-ratio step: after rotate90acw the core's SepMatrix is transformed with ROTATE90CW",
   "an aspect-ratio preference, a drawing that needs a quarter turn, peeled trees with more weight on the clockwise side (so the anticlockwise branch runs) and directed core constraints: the returned graph carries cardinal separation constraints contradicted by its own positions; 2 of 25 random graphs of 30 nodes / 42-45 edges."),
 "C19-peel-k2-maxdegree": ("cola/libdialect/peeling.cpp NodeBuckets::takeLeaves early return m_maxDegree < 1 became <= 1",
   "peeling a graph whose maximum degree is exactly 1, i.e. the single-edge graph K2: no leaves are taken, peel() returns no tree and a two-node core whose nodes have degree one; every graph with a node of degree >= 2 is unaffected."),
}

# usage: python3 tools/seed_meta.py  -- (re)writes seeded/<name>/meta.json from the table above and seeded/RESULTS.txt
if __name__ == "__main__":
    import json, os, re
    here = os.path.dirname(os.path.dirname(os.path.abspath(__file__)))
    res = {}
    rp = os.path.join(here, "seeded", "RESULTS.txt")
    if os.path.exists(rp):
        for ln in open(rp):
            parts = [x.strip() for x in ln.split("|", 3)]
            if len(parts) == 4:
                res[parts[0]] = parts[3]
    for name, (change, needs) in sorted(NEEDS.items()):
        d = os.path.join(here, "seeded", name)
        if not os.path.isdir(d):
            continue
        pid = name[:3]
        r = res.get(name, "")
        verdict = "caught" if r.startswith("CAUGHT") else ("missed" if r.startswith("MISSED") else ("not run" if not r else "broken"))
        meta = dict(property=pid, name=name, change=change, needs_to_manifest=needs,
                    written_by="fresh sub-agent given only the text of property %s and a scratch git worktree of /repo" % pid,
                    confirmed_by_me=["tools/confirm_seed.sh: in the sub-agent's worktree, `make -k check` with the change: 178/178 test programs pass",
                                     "demo.cpp built against the changed libraries exits non-zero (property visibly broken)",
                                     "patch reverted (git apply -R), libraries rebuilt, the same demo.cpp exits 0",
                                     "worktree removed afterwards (git -C /repo worktree remove --force)"],
                    check_run="tools/mutant.sh seeded/%s/patch.diff %s  (scratch worktree of /repo HEAD + patch, VERIF_REPO=<worktree> ./check %s --no-evidence, quick tier, seed 0)" % (name, pid, pid),
                    check_verdict=verdict, check_output=r)
        json.dump(meta, open(os.path.join(d, "meta.json"), "w"), indent=1)
        print(name, verdict)
