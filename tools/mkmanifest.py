#!/usr/bin/env python3
"""Regenerate MANIFEST.json from harness/registry.py (single source of truth)."""
import json, os, sys
HERE = os.path.dirname(os.path.dirname(os.path.abspath(__file__)))
sys.path.insert(0, os.path.join(HERE, "harness"))
from registry import CHECKS, NOT_APPLICABLE, FIX_COMMITS, HOOK_COMMITS

checks = []
for pid in sorted(CHECKS):
    c = CHECKS[pid]
    checks.append(dict(
        property_id=pid,
        quick_cmd="./check %s --tier quick" % pid,
        thorough_cmd="./check %s --tier thorough" % pid,
        evidence_file="evidence/%s.json" % pid,
        replay_cmd_template="./check %s --replay {path}" % pid,
        engine=c.get("engine", "rapidcheck"),
        level_claimed=dict(category=c.get("level", "exploration"), text=c["level_text"],
                           design_ref=c.get("design_ref", "DESIGN.md section 4 (design) and sections 8.2-8.3 (as built, findings), " + pid)),
        level_note=c["level_note"],
        technique=c["technique"],
    ))
m = dict(
    version=1,
    setup_cmd="./check --build-all",
    hooks=dict(guard="ADAPTAGRAMS_VERIF",
               enable="every check compiles /repo/cola/lib*/*.cpp itself with -DADAPTAGRAMS_VERIF -DUSE_ASSERT_EXCEPTIONS "
                      "(clang++ ASan+UBSan, asserts on) into /verif/build; nothing under /repo is written",
               baseline_off_cmd="cd /repo/cola && make -k check -j8",
               source_commits=HOOK_COMMITS, add_only=True),
    engines=[
        dict(name="rapidcheck", path="/usr/include/rapidcheck.h", serves_properties=sorted(CHECKS),
             kind_free_text="property-based testing library (generators, shrinking, state machines); driven by ./check in parallel shards"),
        dict(name="libFuzzer", path="clang++ -fsanitize=fuzzer", serves_properties=[p for p in sorted(CHECKS) if "libFuzzer" in CHECKS[p].get("engine", "")],
             kind_free_text="coverage-guided fuzzing of structure-aware API-history decoders under ASan+UBSan"),
    ],
    checks=checks,
    notes="Genuine defects repaired in /repo by 'fix:' commits (see known_findings.json): " + ", ".join(FIX_COMMITS) +
          ".  DESIGN.md explains generators, oracles, tolerances and which seeded changes each check catches.",
    not_applicable=[dict(property_id=k, reason=v) for k, v in sorted(NOT_APPLICABLE.items())],
)
with open(os.path.join(HERE, "MANIFEST.json"), "w") as f:
    json.dump(m, f, indent=1)
    f.write("\n")
try:
    import jsonschema
    jsonschema.validate(m, json.load(open("/root/.vp/MANIFEST.schema.json")))
    print("MANIFEST.json valid:", len(checks), "checks,", len(m["not_applicable"]), "not_applicable")
except ImportError:
    print("jsonschema not available; wrote MANIFEST.json unvalidated")
