#!/bin/bash
# usage: tools/mutant.sh <patch-file> <ID> [extra check args]
# Applies a patch to a scratch worktree of /repo (never to /repo itself), runs the
# check against it with VERIF_REPO, prints the verdict, removes the worktree.
set -u
PATCH=$(readlink -f "$1"); ID=$2; shift 2
W=/tmp/mw-$$-$RANDOM
git -C /repo worktree add -q --detach "$W" HEAD || exit 3
if ! git -C "$W" apply "$PATCH"; then echo "PATCH DOES NOT APPLY: $PATCH"; git -C /repo worktree remove --force "$W"; exit 3; fi
cd /verif
VERIF_REPO="$W" ./check "$ID" --no-evidence "$@" > "$W.out" 2>&1
rc=$?
if grep -q '^VIOLATION' "$W.out"; then echo "CAUGHT   $(basename $PATCH) by $ID: $(grep -m1 'FAIL\|ABORTED' "$W.out" | cut -c1-220)";
elif [ $rc -eq 0 ]; then echo "MISSED   $(basename $PATCH) by $ID ($(grep -m1 '^OK' "$W.out"))";
else echo "BROKEN($rc) $(basename $PATCH) by $ID: $(tail -3 "$W.out" | tr '\n' ' ' | cut -c1-300)"; fi
# keep pending replays out of the real replay dir
rm -f /verif/replays/$ID/pending-*.case
git -C /repo worktree remove --force "$W"; rm -f "$W.out"
