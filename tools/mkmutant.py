#!/usr/bin/env python3
"""mkmutant.py <name> <file-relative-to-repo> <<< 'OLD\n====\nNEW'  -> mutants/<name>.patch"""
import sys, subprocess, os, tempfile
name, rel = sys.argv[1], sys.argv[2]
old, new = sys.stdin.read().split("\n====\n")
new = new.rstrip("\n")
src = open(os.path.join("/repo", rel)).read()
n = src.count(old)
if n != 1:
    sys.exit("mutant %s: pattern occurs %d times in %s" % (name, n, rel))
with tempfile.TemporaryDirectory() as d:
    a = os.path.join(d, "a"); b = os.path.join(d, "b")
    os.makedirs(os.path.dirname(os.path.join(a, rel))); os.makedirs(os.path.dirname(os.path.join(b, rel)))
    open(os.path.join(a, rel), "w").write(src)
    open(os.path.join(b, rel), "w").write(src.replace(old, new))
    r = subprocess.run(["diff", "-u", "a/" + rel, "b/" + rel], cwd=d, stdout=subprocess.PIPE, text=True)
    open(os.path.join("/verif/mutants", name + ".patch"), "w").write(r.stdout)
print("wrote mutants/%s.patch" % name)
