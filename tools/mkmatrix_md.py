#!/usr/bin/env python3
"""Rewrites the sensitivity tables of DESIGN.md (between the MATRIX markers) from seeded/RESULTS.txt and mutants/RESULTS.txt."""
import os, re, json
HERE = os.path.dirname(os.path.dirname(os.path.abspath(__file__)))

def rows(path):
    out = []
    if not os.path.exists(path):
        return out
    for ln in open(path):
        p = [x.strip() for x in ln.split("|", 3)]
        if len(p) == 4:
            verdict = p[3].split()[0] if p[3] else "?"
            m = re.search(r"FAIL (.*)$", p[3])
            how = (m.group(1) if m else ("library assertion at a new site" if "ABORTED" in p[3] else ("sanitizer report / rate rule" if verdict == "CAUGHT" else "")))
            out.append((p[0], p[1], p[2], verdict, how[:110].replace("|", "/")))
    return out

def table(rs, with_change):
    lines = ["| change | check | verdict | how it shows |" , "|---|---|---|---|"]
    for name, pid, secs, verdict, how in rs:
        ch = ""
        if with_change:
            mp = os.path.join(HERE, "seeded", name, "meta.json")
            if os.path.exists(mp):
                ch = json.load(open(mp)).get("change", "")
        lines.append("| `%s`%s | %s | %s | %s |" % (name, (" — " + ch) if ch else "", pid, verdict.lower(), how))
    return "\n".join(lines)

s = open(os.path.join(HERE, "DESIGN.md")).read()
sr, mr = rows(os.path.join(HERE, "seeded", "RESULTS.txt")), rows(os.path.join(HERE, "mutants", "RESULTS.txt"))
def count(rs): return sum(1 for r in rs if r[3] == "CAUGHT"), len(rs)
body = ("<!-- MATRIX BEGIN -->\n**Sub-agent seeds** (%d of %d caught):\n\n%s\n\n**Hand-written mutants** (%d of %d caught):\n\n%s\n<!-- MATRIX END -->"
        % (count(sr) + (table(sr, True),) + count(mr) + (table(mr, False),)))
if "@@MATRIX@@" in s:
    s = s.replace("@@MATRIX@@", body)
else:
    s = re.sub(r"<!-- MATRIX BEGIN -->.*?<!-- MATRIX END -->", lambda m: body, s, flags=re.S)
open(os.path.join(HERE, "DESIGN.md"), "w").write(s)
print("seeds %d/%d, mutants %d/%d" % (count(sr) + count(mr)))
